#!/usr/bin/env python3
"""Seeded property-breaking changes: import, confirm, run the checks against them, tabulate.

  tools/seeded.py import <dir>        <dir>/<PROP>/out/m<k>/{patch.diff,demo.md,meta.json[,demo_test.go]}
                                      -> /verif/seeded/<PROP>-m<k>/ after confirming in a scratch worktree
                                      that the patch applies to /repo HEAD, builds, keeps the baseline
                                      tests green, and (when a demo test exists) that the demo test
                                      passes without and fails with the patch.
  tools/seeded.py run [-j N] [--tier quick|thorough] [--only-missed] [ID ...]
                                      apply each change to a scratch worktree, run the property's
                                      check with VERIF_REPO pointing at it, store seeded/<ID>/result-<tier>.json
  tools/seeded.py matrix              write seeded/MATRIX.md

Scratch worktrees live under /tmp/seedwt and are removed after use. /repo itself is never touched.
"""
import json, os, re, shutil, subprocess, sys, time
from concurrent.futures import ThreadPoolExecutor

HERE = os.path.dirname(os.path.dirname(os.path.abspath(__file__)))
SEEDED = os.path.join(HERE, "seeded")
WT = "/tmp/seedwt"
REPO = "/repo"
GOENV = dict(os.environ, GOFLAGS="-mod=mod", GOPROXY="off", GOSUMDB="off")


def sh(cmd, cwd=None, env=None, timeout=None):
    p = subprocess.run(cmd, shell=True, cwd=cwd, env=env or GOENV, capture_output=True, text=True, timeout=timeout)
    return p.returncode, p.stdout + p.stderr


def worktree(name):
    d = os.path.join(WT, name)
    if os.path.exists(d):
        sh("git -C %s worktree remove --force %s" % (REPO, d))
        shutil.rmtree(d, ignore_errors=True)
    os.makedirs(WT, exist_ok=True)
    rc, out = sh("git -C %s worktree add -f --detach %s HEAD" % (REPO, d))
    if rc != 0:
        raise RuntimeError(out)
    return d


def drop(d):
    sh("git -C %s worktree remove --force %s" % (REPO, d))
    shutil.rmtree(d, ignore_errors=True)
    sh("git -C %s worktree prune" % REPO)


def demo_dir(wt, src, patch_files):
    """Package directory for a demo test: named in demo.md, else the patched file's directory whose
    package name matches."""
    test = open(os.path.join(src, "demo_test.go")).read()
    m = re.search(r"^package\s+(\w+)", test, re.M)
    pkg = m.group(1) if m else ""
    base = pkg[:-5] if pkg.endswith("_test") else pkg
    cands = []
    md = open(os.path.join(src, "demo.md")).read() if os.path.exists(os.path.join(src, "demo.md")) else ""
    for path in re.findall(r"((?:internal|pkg|cmd)/[\w/]+)", md):
        path = path.rstrip("/")
        if os.path.isdir(os.path.join(wt, path)) and path not in cands:
            cands.append(path)
    for f in patch_files:
        dpath = os.path.dirname(f)
        if dpath not in cands:
            cands.append(dpath)
    for c in cands:
        for fn in os.listdir(os.path.join(wt, c)):
            if fn.endswith(".go"):
                t = open(os.path.join(wt, c, fn)).read()
                mm = re.search(r"^package\s+(\w+)", t, re.M)
                if mm and mm.group(1) in (base, pkg):
                    return c
    return cands[0] if cands else None


def cmd_import(srcroot, only=()):
    tag = ""
    only = list(only)
    if "--tag" in only:
        i = only.index("--tag")
        tag = only[i + 1]
        del only[i:i + 2]
    os.makedirs(SEEDED, exist_ok=True)
    for prop in sorted(os.listdir(srcroot)):
        if only and prop not in only:
            continue
        out = os.path.join(srcroot, prop, "out")
        if not os.path.isdir(out):
            continue
        for m in sorted(os.listdir(out)):
            src = os.path.join(out, m)
            patch = os.path.join(src, "patch.diff")
            if not os.path.exists(patch) or os.path.getsize(patch) == 0:
                continue
            sid = "%s-%s%s" % (prop, tag, m)
            dst = os.path.join(SEEDED, sid)
            if os.path.exists(os.path.join(dst, "confirm.json")):
                continue
            wt = worktree("imp-" + sid)
            conf = {"id": sid, "property": prop}
            try:
                rc, o = sh("git apply --whitespace=nowarn %s" % patch, cwd=wt)
                conf["applies"] = rc == 0
                if rc != 0:
                    conf["error"] = o[-800:]
                    print(sid, "patch does not apply"); continue
                rc, o = sh("git diff --name-only", cwd=wt)
                files = [f for f in o.split() if f]
                conf["files"] = files
                conf["touches_tests"] = any(f.endswith("_test.go") for f in files)
                rc, o = sh("go build ./... && go test -vet=off -count=1 ./...", cwd=wt, timeout=1500)
                conf["baseline_tests_pass"] = rc == 0
                if rc != 0:
                    conf["error"] = o[-1500:]
                if os.path.exists(os.path.join(src, "demo_test.go")):
                    d = demo_dir(wt, src, files)
                    conf["demo_dir"] = d
                    if d:
                        tgt = os.path.join(wt, d, "zz_seeded_demo_test.go")
                        shutil.copy(os.path.join(src, "demo_test.go"), tgt)
                        rc1, o1 = sh("go test -vet=off -count=1 -run . ./%s/" % d, cwd=wt, timeout=900)
                        conf["demo_fails_with_patch"] = rc1 != 0
                        conf["demo_output_with_patch"] = o1[-1200:]
                        sh("git apply -R --whitespace=nowarn %s" % patch, cwd=wt)
                        rc0, o0 = sh("go test -vet=off -count=1 -run . ./%s/" % d, cwd=wt, timeout=900)
                        conf["demo_passes_without_patch"] = rc0 == 0
                        if rc0 != 0:
                            conf["demo_output_without_patch"] = o0[-1200:]
            finally:
                drop(wt)
            ok = conf.get("applies") and conf.get("baseline_tests_pass") and not conf.get("touches_tests")
            conf["accepted"] = bool(ok)
            os.makedirs(dst, exist_ok=True)
            for fn in ("patch.diff", "demo.md", "meta.json", "demo_test.go"):
                if os.path.exists(os.path.join(src, fn)):
                    shutil.copy(os.path.join(src, fn), os.path.join(dst, fn))
            with open(os.path.join(dst, "confirm.json"), "w") as fh:
                json.dump(conf, fh, indent=1)
            print(sid, "accepted" if ok else "REJECTED", {k: v for k, v in conf.items() if k.startswith("demo_") and "output" not in k})


def run_one(sid, tier):
    d = os.path.join(SEEDED, sid)
    conf = json.load(open(os.path.join(d, "confirm.json")))
    if not conf.get("accepted"):
        return sid, None
    prop = conf["property"]
    other = os.environ.get("SEEDED_PROP")  # run another property's check against this change
    if other:
        prop = other
    wt = worktree("run-%s-%s" % (sid, tier))
    t0 = time.time()
    try:
        rc, o = sh("git apply --whitespace=nowarn %s" % os.path.join(d, "patch.diff"), cwd=wt)
        if rc != 0:
            # /repo has moved on since the change was written (fix: commits): apply with fuzz
            rc, o = sh("patch -p1 -F3 --no-backup-if-mismatch < %s" % os.path.join(d, "patch.diff"), cwd=wt)
        if rc != 0:
            return sid, {"error": "apply failed"}
        env = dict(GOENV, VERIF_REPO=wt, VERIF_NOMIN="1", VERIF_EVIDENCE_DIR="/tmp/seedwt/evidence")
        if tier == "thorough":
            env["VERIF_SEED"] = "7"
            env["VERIF_BUDGET_SCALE"] = os.environ.get("SEEDED_THOROUGH_SCALE", "0.34")
        rc, o = sh("./verif check %s %s" % (prop, tier), cwd=HERE, env=env, timeout=4 * 3600)
    finally:
        drop(wt)
    viol = sorted(set(re.findall(r"^  clause=(\S+) key=(.*?) sub=", o, re.M)))
    res = {"id": sid, "property": prop, "tier": tier, "exit": rc, "wall_s": round(time.time() - t0, 1),
           "violation_lines": len(re.findall(r"^VIOLATION property=", o, re.M)),
           "clauses": ["%s|%s" % v for v in viol][:20],
           "tail": o[-1500:]}
    with open(os.path.join(d, "result-%s%s.json" % (tier, "-" + other if other else "")), "w") as fh:
        json.dump(res, fh, indent=1)
    return sid, res


def cmd_run(args):
    jobs, tier, only_missed, ids = 3, "quick", False, []
    i = 0
    while i < len(args):
        if args[i] == "-j":
            jobs = int(args[i + 1]); i += 2
        elif args[i] == "--tier":
            tier = args[i + 1]; i += 2
        elif args[i] == "--only-missed":
            only_missed = True; i += 1
        else:
            ids.append(args[i]); i += 1
    all_ids = sorted(x for x in os.listdir(SEEDED) if os.path.isdir(os.path.join(SEEDED, x)))
    if ids:
        all_ids = [x for x in all_ids if x in ids or x.split("-")[0] in ids]
    if only_missed:
        keep = []
        for x in all_ids:
            p = os.path.join(SEEDED, x, "result-quick.json")
            if os.path.exists(p) and json.load(open(p)).get("exit") == 0:
                keep.append(x)
        all_ids = keep
    with ThreadPoolExecutor(max_workers=jobs) as ex:
        for sid, res in ex.map(lambda s: run_one(s, tier), all_ids):
            if res is None:
                continue
            print(sid, tier, "exit", res.get("exit"), res.get("clauses"), "%ss" % res.get("wall_s"), flush=True)


def cmd_matrix():
    rows = []
    for sid in sorted(os.listdir(SEEDED)):
        d = os.path.join(SEEDED, sid)
        if not os.path.isdir(d) or not os.path.exists(os.path.join(d, "confirm.json")):
            continue
        conf = json.load(open(os.path.join(d, "confirm.json")))
        meta = {}
        try:
            meta = json.load(open(os.path.join(d, "meta.json")))
        except Exception:
            pass
        verdict = {}
        if os.path.exists(os.path.join(d, "verdict.json")):
            verdict = json.load(open(os.path.join(d, "verdict.json")))
        cells = []
        for tier in ("quick", "thorough"):
            p = os.path.join(d, "result-%s.json" % tier)
            if not os.path.exists(p):
                cells.append("-")
                continue
            r = json.load(open(p))
            if r.get("exit") == 1:
                cells.append("caught: " + ", ".join(r.get("clauses", [])[:3]))
            elif r.get("exit") == 0:
                cells.append("missed")
            else:
                cells.append("exit %s" % r.get("exit"))
        rows.append((sid, "yes" if conf.get("accepted") else "no", str(meta.get("summary", ""))[:160].replace("|", "/"), cells[0], cells[1], verdict.get("note", "")))
    with open(os.path.join(SEEDED, "MATRIX.md"), "w") as fh:
        fh.write("| id | accepted | change | quick | thorough | note |\n|---|---|---|---|---|---|\n")
        for r in rows:
            fh.write("| " + " | ".join(r) + " |\n")
    print("wrote", os.path.join(SEEDED, "MATRIX.md"), len(rows), "rows")


if __name__ == "__main__":
    if len(sys.argv) < 2:
        print(__doc__); sys.exit(2)
    if sys.argv[1] == "import":
        cmd_import(sys.argv[2], sys.argv[3:])
    elif sys.argv[1] == "run":
        cmd_run(sys.argv[2:])
    elif sys.argv[1] == "matrix":
        cmd_matrix()
