#!/usr/bin/env python3
"""Generates /verif/MANIFEST.json from the table below (kept next to the checks so the two stay in step)."""
import json, os
HERE = os.path.dirname(os.path.dirname(os.path.abspath(__file__)))

E1_TECH = "deterministic simulation with fault injection: the real node (all goroutines) in a synctest bubble under a seeded baton scheduler (pre-emption at every lock / channel / I/O point, behind completed channel sends, behind unlocks and in front of sync/atomic operations; injected thread stalls), simulated transport/disk/clock, scripted peers; oracle over the recorded history; seeded search with replay + tape minimisation"
E1_NOTE = "Sampling, not proof. Trusted base: go1.26.8 synctest, the source-to-source instrumentation pass, the peer/world models. OutputFetcher/TxFetcher, transport, disk, clock and scheduling are simulated; everything else is the repository's code."

E2_TECH = "deterministic simulation with fault injection: the real RemoteClient (all threads) in a synctest bubble under a seeded baton scheduler (pre-emption at every lock / channel / I/O point, behind completed channel sends, behind unlocks and in front of sync/atomic operations; injected thread stalls), against a scripted service over the simulated transport (latency, fragmentation, slow writes, drops); oracle over the recorded call/response/byte history; seeded search with replay + tape minimisation"
E2_NOTE = "Sampling, not proof. Trusted base: go1.26.8 synctest, the instrumentation pass (incl. every select statement of remote_client.go and the tokenized/threads copy), the service model. The session hash comes from a deterministic stream instead of crypto/rand."

CLAIMED = {
 "C02": ("exploration", E1_TECH,
         "With a trusted peer that answers header and block requests Byzantine-ly (shuffled / gapped / duplicated / unknown-parent / mixed-branch header lists, a sibling of an entry right behind it, empty headers, blocks unrequested, twice, swapped, never) and sends such messages unsolicited, the block repository stays hash-linked with mutually inverse height/hash answers at every check (every 5-45 simulated ms, in every HandleHeaders callback, at the end), and announced heights are contiguous, restart at fork+1, link to what was announced before and equal what the node holds.",
         E1_NOTE, "6 C02, App. C"),
 "C10": ("fault_enumeration", "deterministic simulation with fault injection at the storage seam: the mutation log of a simulated sync/reorg/shutdown run is recorded and every prefix (quick: up to 60 per scenario, all around deletes and reorg records) is restarted; seeded single-operation error injection by index and by operation class; at component level every crash prefix and every single-failure position of block-store histories with reverts across one and two 1000-header files",
         "For each generated scenario every enumerated crash image (initial image + first i storage mutations) loads without error into a hash-linked chain that lies on one trusted-announced branch, and a new node started on it converges to the peer's best chain. With one storage operation failing the node converges anyway or after a clean restart, with linked chains in memory and on disk (also when it carried on without a restart: what a clean stop leaves must load and lead to the peer's chain). Component level: every crash prefix of generated add / AddNext / save / revert histories loads into a linked chain of added headers; with any single storage operation failing once and the caller saving and trying again, the running and the reloaded repository equal the model chain.",
         E1_NOTE + " An individual Write/Remove of the storage interface is atomic (torn writes inside one call are outside the statement).", "6 C10"),
 "C12": ("exploration", E1_TECH,
         "With 1-3 untrusted connections sending generated adversarial traffic (plain and in the extmsg envelope) next to an honest trusted peer: the node still converges to the trusted chain, every block of its chain and every block announced to handlers was announced by the trusted peer, no confirmation refers to another block, nothing is reported safe without a trusted sighting, no getdata goes to a connection before it proved chain membership and never for blocks, no transaction reaches handlers without some verified untrusted connection, and every relevant transaction the trusted peer announces while the node is in sync reaches the handlers whatever untrusted peers push, announce or withhold (adversaries also send transactions spending missing outputs, refuse connections, and push bad bodies right behind every new block).",
         E1_NOTE, "6 C12"),
 "C16": ("exploration", E2_TECH,
         "For 1-8 concurrent calls with distinct keys and any service behaviour per key (answer, reject, answer twice, silence; before or after the caller's time-out; unsolicited responses) each call returns exactly its own response or RejectError(code, text), or ErrTimeout no earlier than the request time-out and within request + message time-out + 5 s; GetOutputs returns each outpoint's own value and script in order or an error; the same request key issued again after a call ended (answered, rejected or timed out) gets its own answer.",
         E2_NOTE, "6 C16"),
 "C17": ("exploration", E2_TECH,
         "For service streams with duplicated, future, old and repeated-after-reconnect ids, connection drops at any stream position, slow handlers and slow writes: ids reach each handler strictly consecutively from the declared id (also when the application declares an id up to three behind its last one), never twice otherwise, both handlers in the same order; what each handler saw of all four notification kinds (tx, update, headers, in-sync) is, per connection, a prefix of the service's written messages filtered by a reference model of the id filter; NextMessageID() = last + 1 at quiescence and more than the id being delivered when read inside a callback; content equals the service's message of that id, and with a service that resumes exactly from the declared id nothing is missed.",
         E2_NOTE, "6 C17, App. C"),
 "C18": ("exploration", E2_TECH,
         "Over accept variants per connection (valid, long-term key, key for another hash, foreign signature, altered counts, replayed accept, none, reject; data sent after, ahead of or without the accept), both connection types, calls issued before/after accept, during disconnects and after reconnects, concurrent subscriptions, slow writes and drops: every Register verifies against the configured key; nothing but register/subscribe/ready is written before a connection's handshake completed; the client's bytes on every connection parse as whole messages; a call that returned nil was written after the handshake; after a forged accept no accept or data callback occurs and IsAccepted() is false (accept signatures are made with an independent implementation of the signature hash; connections are also lost right behind a valid accept).",
         E2_NOTE, "6 C18"),
 "C19": ("exploration", E1_TECH,
         "With Stop requested at a tape-chosen instant of chain and transaction scenarios (while dialling, in the handshake, during sync, in sync, around the node's own reconnects, with slow handlers, untrusted connections, connection faults): Stop and Run return within 120 simulated seconds, the stored chain / unconfirmed set / peers equal the in-memory ones, no callback follows Stop's return, no node task survives, the first header request of every connection starts at the stored tip and no block is announced twice without a reorganisation; also with outages of the external output service.",
         E1_NOTE, "6 C19"),
 "C01": ("exploration", E1_TECH,
         "For every explored block tree, best-chain change script (extend, reorg incl. below the start block and among undownloaded blocks, flip-flop), schedule and fault mix (duplicated / reordered / stalled peer messages, connection close / reset / bounded black-hole, dial failures, clean restarts) the node's tip and height-to-hash answers from the start block up equal the peer's best chain within 45 simulated minutes of the last change, and HandleInSync is only delivered while every block announced in fully read headers messages is held.",
         E1_NOTE, "6 C01, App. C"),
 "C03": ("exploration", E1_TECH,
         "Over explored transaction sets and arrival histories (trusted/untrusted inv or body, local submission, first seen in a block, duplicates, silent peers, re-announcement after confirmation, a first push by an untrusted peer while the output service cannot answer for its inputs) every delivered transaction matches the independent reference filter, carries the spent outputs of the world model, is delivered as new at most once, reaches both handlers, and every relevant transaction that arrived while the node was stably in sync, was submitted locally or is in a processed block has been delivered.",
         E1_NOTE, "6 C03"),
 "C04": ("exploration", E1_TECH,
         "Block transaction counts 1..17, 31, 32, 33 (enumerated by run index; random up to 70 in the thorough tier) with relevant transactions at first/last/odd-leaf/all/random positions, seen before or not: every confirmation notification carries a proof that an independent merkle verifier accepts against the block header, with the true index and depth zero, and the dependency's own verifier agrees on the proof and on tampered variants. Bodies corrupted under an unchanged header (transaction added, dropped, swapped, altered, last duplicated when that changes the root) never enter the chain, are never announced and none of their transactions is delivered. In transaction histories with double-spend attempts, chains and a lost trusted connection every notification that carries a proof verifies independently, names the true index and block, and has depth zero.",
         E1_NOTE, "6 C04"),
 "C05": ("exploration", E1_TECH,
         "For explored k-way and partial outpoint conflicts in all arrival orders and sources, every relevant transaction of a pair that was processed while both were unconfirmed is reported unsafe, neither is reported safe afterwards, and no transaction is reported unsafe without a conflicting transaction having reached the node (also after evictions by confirmed conflicts).",
         E1_NOTE, "6 C05"),
 "C06": ("exploration", E1_TECH,
         "For explored unconfirmed sets and blocks confirming conflicting transactions (winner relevant or not, seen before or not), every previously delivered relevant loser receives a cancelled+unsafe update, the chain reaches the peer's tip, and every relevant transaction of a processed block has a notification whose merkle proof an independent verifier accepts.",
         E1_NOTE, "6 C06"),
 "C07": ("exploration", E1_TECH,
         "Over explored histories the per-transaction state trajectory never has safe and unsafe together, cancelled implies unsafe, nothing says safe after unsafe/cancelled, at most one unconfirmed safe report; a non-local safe report requires a trusted sighting, the configured delay since first seen and no earlier conflicting arrival; when those hold and the node stays in sync a safe report follows within delay + 30 s.",
         E1_NOTE, "6 C07, App. C"),
 # id: (level, technique, text, note, design_ref)
 "C11": ("exploration", E1_TECH + "; plus save/load of the unconfirmed-set file with every flag combination",
         "With a clean Stop and a new node on the same simulated disk inserted at a quiescent point of explored histories: no tracked transaction is delivered as new again, a later confirmation is an update with proof, safe is not repeated and never follows unsafe, a vouched conflict-free transaction becomes safe at first-seen + delay (millisecond first-seen time and trusted flag survive), and GetTx returns the bytes that were sent to handlers for every delivered txid with the external tx service disabled. The unconfirmed file round-trips 0..8 entries with all flag combinations and millisecond times.",
         E1_NOTE, "6 C11"),
 "C14": ("exploration", E1_TECH,
         "From the getdata messages seen on all simulated connections (with ping storms on every connection while blocks are fetched and processed): no second request for a txid inside the three-second window, none after its body arrived and none from stale tracker state after a block containing it was processed; when the asked peer stays silent and another connection that announced the txid inside the window shows activity after it, that connection is asked within 5 s. Scenarios include up to 140 transactions, bursts of more than 100 unanswered announcements and ping storms.",
         E1_NOTE + " Requests caused by a fresh announcement after the transaction was confirmed are not judged (the node keeps no record of confirmed irrelevant transactions).", "6 C14, App. C"),
 "C08": ("exploration",
         "deterministic simulation: reference-model comparison of the real subscription filter over seeded operation histories and grammar-generated scripts; concurrent callers under the seeded baton scheduler with the recorded invoke/return history checked for linearizability (porcupine); and the whole-node transaction scenario with generated scripts and subscription histories",
         "For every explored subscribe/unsubscribe history (raw or 20-byte form, lists with repeats, contract flag) and every generated transaction (grammar: direct and PUSHDATA1/2/4 pushes of any length incl. non-minimal, non-push opcodes, pushes past the end, truncated length fields, arbitrary truncation; Tokenized actions of 14 kinds in envelope v0/v1 for either protocol id) IsRelevant equals the independent byte-level walker over the reference multiset, never panics, matches nothing once everything is unsubscribed; concurrent histories are linearizable per component; in whole-node runs exactly the reference-relevant transactions are delivered.",
         E1_NOTE + " Whether OP_0, OP_1..16, OP_1NEGATE and empty pushes count as data pushes is not judged (the universe avoids their hashes). The contract-action expectation is by construction of the generated output (the specification library builds it), not an independent parser.", "6 C08"),
 "C15": ("exploration",
         "deterministic simulation at the stream seam: generated message sequences of all 37 wire types written by the real serializers and read back through a simulated reader that fragments at tape-chosen points; every strict prefix decoded; stored transaction records through the simulated disk",
         "Every generated message of every type decodes to a semantically equal value of the same type consuming exactly its own bytes regardless of fragmentation and of what follows it in the stream; every strict prefix of an encoding fails with an error (no panic, no success); type code, name and payload type are in bijection; stored transaction records survive save/fetch on the simulated disk and reject every strict prefix. Through the real client: every numbered message a scripted service writes over fragmenting and coalescing links reaches the handlers once, intact and in order, and the bytes the client writes under concurrent direct writers parse as whole messages.",
         "Sampling over generated field values. The codec sub-checks use a simulated fragmenting reader and no scheduler; the two whole-client sub-checks reuse the C17 and C18 scenarios judged for framing clauses only.", "6 C15"),
 "C20": ("fault_enumeration",
         "fault injection at the byte-stream and stored-record seams: for valid encodings of every client message type and every stored record, hostile count values are planted at every byte offset, plus every truncation, seeded bit flips and random tails; each case decoded by the real decoders in a child process that reports panics and bytes allocated",
         "For every enumerated hostile encoding the decoders of internal/... and pkg/client return (value or error) without panicking and allocate at most 16 MiB + 256 x input length; a child process that dies or a decode that does not return within 10 s is a violation; every repository object is used twice (a failed decode must leave it usable). Regions decoded by the tokenized/pkg dependency (wire.MsgTx, bsor) are sampled thinly and their failures are listed as known findings.",
         "Enumeration is over offsets x a fixed set of hostile values for one valid encoding per type and run; other field values are sampled. The allocation bound is the harness's (the statement says 'bounded by input size').", "6 C20"),
 "C09": ("exploration",
         "deterministic simulation at the storage seam: reference-model comparison of the real block repository over seeded operation sequences (Add and AddNext paths) with both delete-missing semantics and injected per-operation disk errors; exhaustive revert-boundary sweep; single-failure enumeration over every mutation of a history; concurrent callers under the seeded baton scheduler with the history checked by porcupine",
         "After every operation of every explored add/revert/save/load/query sequence the real BlockRepository (and Node.GetHeaders) answers exactly like a slice-of-headers model; a revert that fails through an injected disk error leaves all answers unchanged; all revert targets within 2 of each 1000-header boundary and of the tip are enumerated for store sizes around the boundaries, saved and unsaved, under both back-end behaviours; with any single write or remove (and sampled reads) of a history failing once, no answer changes through the failed step and the store recovers; concurrent Add / Revert / Header(-1) / Hash / Height histories are linearizable (porcupine).",
         "Sampling beyond the enumerated sweep; the storage back end is the simulated disk (individual operations atomic).",
         "6 C09"),
 "C13": ("exploration",
         "deterministic simulation: reference-model comparison of the real request queue over seeded and bounded-exhaustive operation sequences (component level); wire-level window oracle in whole-node simulated runs (chain scripts with reorgs, reordered / duplicated / stalled / unsolicited block deliveries, connection faults, restarts) judged from the node's written getdata history and the HandleHeaders history",
         "Every operation sequence explored leaves the real state.State request queue equal to a reference queue model written from the statement (order, window of ten, byte pause, unrequested ignored, clear-after, byte counter zero when nothing buffered); all sequences up to a bounded depth are enumerated, longer ones are seeded. In whole-node runs block requests are written in chain order without skipping, a new branch is requested from its fork point, no block is requested twice on a connection unless its branch was abandoned in between, at most ten requested blocks are unannounced (+1 being processed), and no block is announced that the node never requested (unsolicited bodies ignored).",
         "Sampling beyond the enumerated depth; fake block bodies with chosen sizes stand in for wire blocks at component level. The wire-level bound is eleven because a block that left the window for processing is announced only when processing ends.",
         "6 C13, 12.2"),
}

ALL = ["C%02d" % i for i in range(1, 21)]
PENDING_REASON = "check not built yet in this round (see DESIGN.md section 6 for the plan); not claimed until its oracle has run clean on the unchanged tree"

def main():
    checks = []
    for pid in ALL:
        if pid not in CLAIMED:
            continue
        level, tech, text, note, ref = CLAIMED[pid]
        checks.append({
            "property_id": pid,
            "quick_cmd": "./verif check %s quick" % pid,
            "thorough_cmd": "./verif check %s thorough" % pid,
            "evidence_file": "/verif/evidence/%s.json" % pid,
            "replay_cmd_template": "./verif replay {path}",
            "engine": "verifsim",
            "level_claimed": {"category": level, "text": text, "design_ref": ref},
            "level_note": note,
            "technique": tech,
        })
    na = [{"property_id": p, "reason": PENDING_REASON} for p in ALL if p not in CLAIMED]
    m = {
        "version": 1,
        "setup_cmd": "./verif setup",
        "hooks": {
            "guard": "none (no source hooks: instrumentation is a build-time source-to-source pass applied through go build -overlay)",
            "enable": "./verif build  (tools/simrewrite rewrites the working tree of /repo into a scratch dir; go test -c -overlay/-modfile compiles it; /repo is never modified)",
            "baseline_off_cmd": "cd /repo && GOFLAGS=-mod=mod GOPROXY=off GOSUMDB=off go test -vet=off -count=1 ./...",
            "source_commits": [],
            "add_only": True,
        },
        "engines": [
            {"name": "verifsim", "path": "/verif/sim", "serves_properties": sorted(CLAIMED),
             "kind_free_text": "deterministic simulation: baton scheduler over testing/synctest (simrt), simulated transport and disk, seeded tapes, replay + minimisation; one go test binary built from the instrumented working tree"},
        ],
        "checks": checks,
        "not_applicable": na,
        "notes": "Exit 0 held / 1 VIOLATION / 2 machinery trouble (build, watchdog, determinism, REACH-LOST). known_findings.json lists open and fixed findings.",
    }
    with open(os.path.join(HERE, "MANIFEST.json"), "w") as fh:
        json.dump(m, fh, indent=1)
    print("MANIFEST.json: %d checks, %d not claimed" % (len(checks), len(na)))

if __name__ == "__main__":
    main()
