#!/usr/bin/env python3
"""Generates /verif/MANIFEST.json from the table below (kept next to the checks so the two stay in step)."""
import json, os
HERE = os.path.dirname(os.path.dirname(os.path.abspath(__file__)))

CLAIMED = {
 # id: (level, technique, text, note, design_ref)
 "C09": ("exploration",
         "deterministic simulation at the storage seam: reference-model comparison of the real block repository over seeded operation sequences with both delete-missing semantics and injected per-operation disk errors; exhaustive revert-boundary sweep",
         "After every operation of every explored add/revert/save/load/query sequence the real BlockRepository (and Node.GetHeaders) answers exactly like a slice-of-headers model; a revert that fails through an injected disk error leaves all answers unchanged; all revert targets within 2 of each 1000-header boundary and of the tip are enumerated for store sizes around the boundaries, saved and unsaved, under both back-end behaviours.",
         "Sampling beyond the enumerated sweep; the storage back end is the simulated disk (individual operations atomic).",
         "6 C09"),
 "C13": ("exploration",
         "deterministic simulation: reference-model comparison of the real request queue over seeded and bounded-exhaustive operation sequences (component engine); wire-level window oracle in whole-node simulated runs",
         "Every operation sequence explored leaves the real state.State request queue equal to a reference queue model written from the statement (order, window of ten, byte pause, unrequested ignored, clear-after, byte counter zero when nothing buffered); all sequences up to a bounded depth are enumerated, longer ones are seeded.",
         "Sampling beyond the enumerated depth; fake block bodies with chosen sizes stand in for wire blocks at component level.",
         "6 C13"),
}

ALL = ["C%02d" % i for i in range(1, 21)]
PENDING_REASON = "check not built yet in this round (see DESIGN.md section 6 for the plan); not claimed until its oracle has run clean on the unchanged tree"

def main():
    checks = []
    for pid in ALL:
        if pid not in CLAIMED:
            continue
        level, tech, text, note, ref = CLAIMED[pid]
        checks.append({
            "property_id": pid,
            "quick_cmd": "./verif check %s quick" % pid,
            "thorough_cmd": "./verif check %s thorough" % pid,
            "evidence_file": "/verif/evidence/%s.json" % pid,
            "replay_cmd_template": "./verif replay {path}",
            "engine": "verifsim",
            "level_claimed": {"category": level, "text": text, "design_ref": ref},
            "level_note": note,
            "technique": tech,
        })
    na = [{"property_id": p, "reason": PENDING_REASON} for p in ALL if p not in CLAIMED]
    m = {
        "version": 1,
        "setup_cmd": "./verif setup",
        "hooks": {
            "guard": "none (no source hooks: instrumentation is a build-time source-to-source pass applied through go build -overlay)",
            "enable": "./verif build  (tools/simrewrite rewrites the working tree of /repo into a scratch dir; go test -c -overlay/-modfile compiles it; /repo is never modified)",
            "baseline_off_cmd": "cd /repo && GOFLAGS=-mod=mod GOPROXY=off GOSUMDB=off go test -vet=off -count=1 ./...",
            "source_commits": [],
            "add_only": True,
        },
        "engines": [
            {"name": "verifsim", "path": "/verif/sim", "serves_properties": sorted(CLAIMED),
             "kind_free_text": "deterministic simulation: baton scheduler over testing/synctest (simrt), simulated transport and disk, seeded tapes, replay + minimisation; one go test binary built from the instrumented working tree"},
        ],
        "checks": checks,
        "not_applicable": na,
        "notes": "Exit 0 held / 1 VIOLATION / 2 machinery trouble (build, watchdog, determinism, REACH-LOST). known_findings.json lists open and fixed findings.",
    }
    with open(os.path.join(HERE, "MANIFEST.json"), "w") as fh:
        json.dump(m, fh, indent=1)
    print("MANIFEST.json: %d checks, %d not claimed" % (len(checks), len(na)))

if __name__ == "__main__":
    main()
