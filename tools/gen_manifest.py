#!/usr/bin/env python3
"""Generates /verif/MANIFEST.json from the table below (kept next to the checks so the two stay in step)."""
import json, os
HERE = os.path.dirname(os.path.dirname(os.path.abspath(__file__)))

E1_TECH = "deterministic simulation with fault injection: the real node (all goroutines) in a synctest bubble under a seeded baton scheduler, simulated transport/disk/clock, scripted peers; oracle over the recorded history; seeded search with replay + tape minimisation"
E1_NOTE = "Sampling, not proof. Trusted base: go1.26.8 synctest, the source-to-source instrumentation pass, the peer/world models. OutputFetcher/TxFetcher, transport, disk, clock and scheduling are simulated; everything else is the repository's code."

CLAIMED = {
 "C01": ("exploration", E1_TECH,
         "For every explored block tree, best-chain change script (extend, reorg incl. below the start block and among undownloaded blocks, flip-flop), schedule and fault mix (duplicated / reordered / stalled peer messages, connection close / reset / bounded black-hole, dial failures, clean restarts) the node's tip and height-to-hash answers from the start block up equal the peer's best chain within 45 simulated minutes of the last change, and HandleInSync is only delivered while every block announced in fully read headers messages is held.",
         E1_NOTE, "6 C01, App. C"),
 "C03": ("exploration", E1_TECH,
         "Over explored transaction sets and arrival histories (trusted/untrusted inv or body, local submission, first seen in a block, duplicates, silent peers, re-announcement after confirmation) every delivered transaction matches the independent reference filter, carries the spent outputs of the world model, is delivered as new at most once, reaches both handlers, and every relevant transaction that arrived while the node was stably in sync, was submitted locally or is in a processed block has been delivered.",
         E1_NOTE, "6 C03"),
 "C04": ("exploration", E1_TECH,
         "Block transaction counts 1..17, 31, 32, 33 (enumerated by run index; random up to 70 in the thorough tier) with relevant transactions at first/last/odd-leaf/all/random positions, seen before or not: every confirmation notification carries a proof that an independent merkle verifier accepts against the block header, with the true index and depth zero, and the dependency's own verifier agrees on the proof and on tampered variants. Bodies corrupted under an unchanged header (transaction added, dropped, swapped, altered, last duplicated when that changes the root) never enter the chain, are never announced and none of their transactions is delivered.",
         E1_NOTE, "6 C04"),
 "C05": ("exploration", E1_TECH,
         "For explored k-way and partial outpoint conflicts in all arrival orders and sources, every relevant transaction of a pair that was processed while both were unconfirmed is reported unsafe, and no transaction is reported unsafe without a conflicting transaction having reached the node (also after evictions by confirmed conflicts).",
         E1_NOTE, "6 C05"),
 "C06": ("exploration", E1_TECH,
         "For explored unconfirmed sets and blocks confirming conflicting transactions (winner relevant or not, seen before or not), every previously delivered relevant loser receives a cancelled+unsafe update, the chain reaches the peer's tip, and every relevant transaction of a processed block has a notification whose merkle proof an independent verifier accepts.",
         E1_NOTE, "6 C06"),
 "C07": ("exploration", E1_TECH,
         "Over explored histories the per-transaction state trajectory never has safe and unsafe together, cancelled implies unsafe, nothing says safe after unsafe/cancelled, at most one unconfirmed safe report; a non-local safe report requires a trusted sighting, the configured delay since first seen and no earlier conflicting arrival; when those hold and the node stays in sync a safe report follows within delay + 30 s.",
         E1_NOTE, "6 C07, App. C"),
 # id: (level, technique, text, note, design_ref)
 "C11": ("exploration", E1_TECH + "; plus save/load of the unconfirmed-set file with every flag combination",
         "With a clean Stop and a new node on the same simulated disk inserted at a quiescent point of explored histories: no tracked transaction is delivered as new again, a later confirmation is an update with proof, safe is not repeated and never follows unsafe, a vouched conflict-free transaction becomes safe at first-seen + delay (millisecond first-seen time and trusted flag survive), and GetTx returns the bytes that were sent to handlers for every delivered txid with the external tx service disabled. The unconfirmed file round-trips 0..8 entries with all flag combinations and millisecond times.",
         E1_NOTE, "6 C11"),
 "C14": ("exploration", E1_TECH,
         "From the getdata messages seen on all simulated connections: no second request for a txid inside the three-second window, none after its body arrived and none from stale tracker state after a block containing it was processed; when the asked peer stays silent and another connection that announced the txid inside the window shows activity after it, that connection is asked within 5 s.",
         E1_NOTE + " Requests caused by a fresh announcement after the transaction was confirmed are not judged (the node keeps no record of confirmed irrelevant transactions).", "6 C14, App. C"),
 "C09": ("exploration",
         "deterministic simulation at the storage seam: reference-model comparison of the real block repository over seeded operation sequences with both delete-missing semantics and injected per-operation disk errors; exhaustive revert-boundary sweep",
         "After every operation of every explored add/revert/save/load/query sequence the real BlockRepository (and Node.GetHeaders) answers exactly like a slice-of-headers model; a revert that fails through an injected disk error leaves all answers unchanged; all revert targets within 2 of each 1000-header boundary and of the tip are enumerated for store sizes around the boundaries, saved and unsaved, under both back-end behaviours.",
         "Sampling beyond the enumerated sweep; the storage back end is the simulated disk (individual operations atomic).",
         "6 C09"),
 "C13": ("exploration",
         "deterministic simulation: reference-model comparison of the real request queue over seeded and bounded-exhaustive operation sequences (component engine); wire-level window oracle in whole-node simulated runs",
         "Every operation sequence explored leaves the real state.State request queue equal to a reference queue model written from the statement (order, window of ten, byte pause, unrequested ignored, clear-after, byte counter zero when nothing buffered); all sequences up to a bounded depth are enumerated, longer ones are seeded.",
         "Sampling beyond the enumerated depth; fake block bodies with chosen sizes stand in for wire blocks at component level.",
         "6 C13"),
}

ALL = ["C%02d" % i for i in range(1, 21)]
PENDING_REASON = "check not built yet in this round (see DESIGN.md section 6 for the plan); not claimed until its oracle has run clean on the unchanged tree"

def main():
    checks = []
    for pid in ALL:
        if pid not in CLAIMED:
            continue
        level, tech, text, note, ref = CLAIMED[pid]
        checks.append({
            "property_id": pid,
            "quick_cmd": "./verif check %s quick" % pid,
            "thorough_cmd": "./verif check %s thorough" % pid,
            "evidence_file": "/verif/evidence/%s.json" % pid,
            "replay_cmd_template": "./verif replay {path}",
            "engine": "verifsim",
            "level_claimed": {"category": level, "text": text, "design_ref": ref},
            "level_note": note,
            "technique": tech,
        })
    na = [{"property_id": p, "reason": PENDING_REASON} for p in ALL if p not in CLAIMED]
    m = {
        "version": 1,
        "setup_cmd": "./verif setup",
        "hooks": {
            "guard": "none (no source hooks: instrumentation is a build-time source-to-source pass applied through go build -overlay)",
            "enable": "./verif build  (tools/simrewrite rewrites the working tree of /repo into a scratch dir; go test -c -overlay/-modfile compiles it; /repo is never modified)",
            "baseline_off_cmd": "cd /repo && GOFLAGS=-mod=mod GOPROXY=off GOSUMDB=off go test -vet=off -count=1 ./...",
            "source_commits": [],
            "add_only": True,
        },
        "engines": [
            {"name": "verifsim", "path": "/verif/sim", "serves_properties": sorted(CLAIMED),
             "kind_free_text": "deterministic simulation: baton scheduler over testing/synctest (simrt), simulated transport and disk, seeded tapes, replay + minimisation; one go test binary built from the instrumented working tree"},
        ],
        "checks": checks,
        "not_applicable": na,
        "notes": "Exit 0 held / 1 VIOLATION / 2 machinery trouble (build, watchdog, determinism, REACH-LOST). known_findings.json lists open and fixed findings.",
    }
    with open(os.path.join(HERE, "MANIFEST.json"), "w") as fh:
        json.dump(m, fh, indent=1)
    print("MANIFEST.json: %d checks, %d not claimed" % (len(checks), len(na)))

if __name__ == "__main__":
    main()
