// simrewrite: the instrumentation pass of the spynode deterministic-simulation harness.
//
// It loads the spynode packages that contain concurrency, time or I/O (plus the tokenized/threads
// dependency) with full type information and writes rewritten copies of their non-test files in
// which every scheduling-relevant construct goes through verif.local/simrt:
//
//	go f(x)                 -> simrt.Go(site, func(){ f(x) })         (arguments evaluated first)
//	time.Sleep(d)           -> simrt.Sleep(d)
//	m.Lock()/Unlock()...    -> simrt.Lock(&m) ...                      (sync.Mutex / sync.RWMutex)
//	ch <- v, <-ch, range ch -> simrt.SendX / RecvX / Recv2X
//	select {...}            -> switch simrt.Select(hasDefault, cases...) {...}
//	wg.Wait()               -> simrt.WaitGroupWait(&wg)
//	for k, v := range map   -> for _, k := range simrt.Keys(m) {...}
//	net.Dial*, DialContext  -> simrt.Dial*
//	math/rand.Uint64()      -> simrt.RandUint64()
//
// Anything blocking that it does not know how to own aborts with INSTRUMENTATION-GAP (exit 2).
//
// Output: <out>/rewritten/<rel path>, <out>/deps/threads (module copy), <out>/overlay.json
// fragments are produced by the caller; this tool prints a JSON report on stdout.
package main

import (
	"bytes"
	"encoding/json"
	"flag"
	"fmt"
	"go/ast"
	"go/format"
	"go/token"
	"go/types"
	"os"
	"path/filepath"
	"sort"
	"strings"

	"golang.org/x/tools/go/ast/astutil"
	"golang.org/x/tools/go/packages"
)

const simrtPath = "verif.local/simrt"

type fileReport struct {
	File   string         `json:"file"`
	Out    string         `json:"out"`
	Counts map[string]int `json:"counts"`
}

type report struct {
	Files  []fileReport   `json:"files"`
	Totals map[string]int `json:"totals"`
	Gaps   []string       `json:"gaps"`
}

var gaps []string

func gap(fset *token.FileSet, pos token.Pos, format string, args ...interface{}) {
	gaps = append(gaps, fmt.Sprintf("%s: %s", fset.Position(pos), fmt.Sprintf(format, args...)))
}

func main() {
	repo := flag.String("repo", "/repo", "spynode working tree")
	out := flag.String("out", "", "output directory")
	flag.Parse()
	if *out == "" {
		fmt.Fprintln(os.Stderr, "usage: simrewrite -repo DIR -out DIR")
		os.Exit(2)
	}
	cfg := &packages.Config{
		Mode: packages.NeedName | packages.NeedFiles | packages.NeedCompiledGoFiles | packages.NeedSyntax | packages.NeedTypes |
			packages.NeedTypesInfo | packages.NeedImports | packages.NeedDeps | packages.NeedModule,
		Dir: *repo,
	}
	patterns := []string{"./internal/spynode", "./internal/handlers", "./internal/state",
		"./internal/storage", "./pkg/client", "github.com/tokenized/threads"}
	pkgs, err := packages.Load(cfg, patterns...)
	if err != nil {
		fmt.Fprintln(os.Stderr, "INSTRUMENTATION-GAP load:", err)
		os.Exit(2)
	}
	bad := false
	for _, p := range pkgs {
		for _, e := range p.Errors {
			fmt.Fprintln(os.Stderr, "BUILD-ERROR", e)
			bad = true
		}
	}
	if bad {
		os.Exit(2)
	}
	rep := report{Totals: map[string]int{}}
	absRepo, _ := filepath.Abs(*repo)
	for _, p := range pkgs {
		for i, f := range p.Syntax {
			src := p.CompiledGoFiles[i]
			rw := &rewriter{fset: p.Fset, info: p.TypesInfo, pkg: p.Types, file: f, counts: map[string]int{}}
			rw.rewrite()
			var buf bytes.Buffer
			if err := format.Node(&buf, p.Fset, f); err != nil {
				fmt.Fprintln(os.Stderr, "INSTRUMENTATION-GAP print:", src, err)
				os.Exit(2)
			}
			var dst string
			if strings.HasPrefix(src, absRepo+string(filepath.Separator)) {
				rel, _ := filepath.Rel(absRepo, src)
				dst = filepath.Join(*out, "rewritten", rel)
			} else {
				dst = filepath.Join(*out, "deps", "threads", filepath.Base(src))
			}
			if err := os.MkdirAll(filepath.Dir(dst), 0o755); err != nil {
				panic(err)
			}
			if err := os.WriteFile(dst, buf.Bytes(), 0o644); err != nil {
				panic(err)
			}
			rep.Files = append(rep.Files, fileReport{File: src, Out: dst, Counts: rw.counts})
			for k, v := range rw.counts {
				rep.Totals[k] += v
			}
		}
	}
	sort.Slice(rep.Files, func(i, j int) bool { return rep.Files[i].File < rep.Files[j].File })
	rep.Gaps = gaps
	js, _ := json.MarshalIndent(rep, "", " ")
	fmt.Println(string(js))
	if len(gaps) > 0 {
		for _, g := range gaps {
			fmt.Fprintln(os.Stderr, "INSTRUMENTATION-GAP", g)
		}
		os.Exit(2)
	}
}

type rewriter struct {
	fset   *token.FileSet
	info   *types.Info
	pkg    *types.Package
	file   *ast.File
	counts map[string]int
	used   bool
	nsel   int
	// nodes that are communication clauses' comm statements (handled by the select rule)
	inComm map[ast.Node]bool
}

func (r *rewriter) simrt(name string) *ast.SelectorExpr {
	r.used = true
	return &ast.SelectorExpr{X: ast.NewIdent("simrt"), Sel: ast.NewIdent(name)}
}

func (r *rewriter) call(name string, args ...ast.Expr) *ast.CallExpr {
	return &ast.CallExpr{Fun: r.simrt(name), Args: args}
}

// pkgFunc reports whether call is pkgPath.name(...)
func (r *rewriter) pkgFunc(call *ast.CallExpr, pkgPath, name string) bool {
	sel, ok := call.Fun.(*ast.SelectorExpr)
	if !ok {
		return false
	}
	id, ok := sel.X.(*ast.Ident)
	if !ok {
		return false
	}
	pn, ok := r.info.Uses[id].(*types.PkgName)
	if !ok {
		return false
	}
	return pn.Imported().Path() == pkgPath && sel.Sel.Name == name
}

func (r *rewriter) pkgOf(call *ast.CallExpr) (string, string) {
	sel, ok := call.Fun.(*ast.SelectorExpr)
	if !ok {
		return "", ""
	}
	id, ok := sel.X.(*ast.Ident)
	if !ok {
		return "", ""
	}
	pn, ok := r.info.Uses[id].(*types.PkgName)
	if !ok {
		return "", ""
	}
	return pn.Imported().Path(), sel.Sel.Name
}

// syncMethod: if call is a method call on sync.Mutex/RWMutex/WaitGroup, returns the type name,
// the method name and an expression denoting a pointer to the receiver object.
func (r *rewriter) syncMethod(call *ast.CallExpr) (string, string, ast.Expr, bool) {
	sel, ok := call.Fun.(*ast.SelectorExpr)
	if !ok {
		return "", "", nil, false
	}
	selection := r.info.Selections[sel]
	if selection == nil || selection.Kind() != types.MethodVal {
		return "", "", nil, false
	}
	fn, ok := selection.Obj().(*types.Func)
	if !ok || fn.Pkg() == nil || fn.Pkg().Path() != "sync" {
		return "", "", nil, false
	}
	sig := fn.Type().(*types.Signature)
	recv := sig.Recv().Type()
	if p, ok := recv.(*types.Pointer); ok {
		recv = p.Elem()
	}
	named, ok := recv.(*types.Named)
	if !ok {
		return "", "", nil, false
	}
	tname := named.Obj().Name()
	// Build the receiver expression, following embedded fields.
	x := sel.X
	t := r.info.TypeOf(sel.X)
	idx := selection.Index()
	for _, fi := range idx[:len(idx)-1] {
		if p, ok := t.Underlying().(*types.Pointer); ok {
			t = p.Elem()
		}
		st, ok := t.Underlying().(*types.Struct)
		if !ok {
			return "", "", nil, false
		}
		fld := st.Field(fi)
		x = &ast.SelectorExpr{X: x, Sel: ast.NewIdent(fld.Name())}
		t = fld.Type()
	}
	var ptr ast.Expr
	if _, isPtr := t.Underlying().(*types.Pointer); isPtr {
		ptr = x
	} else {
		ptr = &ast.UnaryExpr{Op: token.AND, X: x}
	}
	return tname, fn.Name(), ptr, true
}

func chanDir(t types.Type) (types.ChanDir, bool) {
	if t == nil {
		return 0, false
	}
	ch, ok := t.Underlying().(*types.Chan)
	if !ok {
		return 0, false
	}
	return ch.Dir(), true
}

func (r *rewriter) variant(base string, chExpr ast.Expr) string {
	d, ok := chanDir(r.info.TypeOf(chExpr))
	if !ok {
		gap(r.fset, chExpr.Pos(), "channel operation on non-channel type")
		return base + "Bi"
	}
	if d == types.SendRecv {
		return base + "Bi"
	}
	return base + "Dir"
}

func (r *rewriter) rewrite() {
	r.inComm = map[ast.Node]bool{}
	// mark comm statements of selects so the generic channel rules skip them
	ast.Inspect(r.file, func(n ast.Node) bool {
		if sel, ok := n.(*ast.SelectStmt); ok {
			for _, c := range sel.Body.List {
				cc := c.(*ast.CommClause)
				if cc.Comm == nil {
					continue
				}
				r.inComm[cc.Comm] = true
				switch s := cc.Comm.(type) {
				case *ast.ExprStmt:
					r.inComm[s.X] = true
				case *ast.AssignStmt:
					if len(s.Rhs) == 1 {
						r.inComm[s.Rhs[0]] = true
					}
				}
			}
		}
		if ls, ok := n.(*ast.LabeledStmt); ok {
			if _, isSel := ls.Stmt.(*ast.SelectStmt); isSel {
				gap(r.fset, ls.Pos(), "labeled select statement")
			}
		}
		return true
	})

	post := func(c *astutil.Cursor) bool {
		switch n := c.Node().(type) {
		case *ast.GoStmt:
			c.Replace(r.rewriteGo(n))
		case *ast.CallExpr:
			if repl := r.rewriteCall(n); repl != nil {
				c.Replace(repl)
			}
		case *ast.SendStmt:
			if r.inComm[n] {
				return true
			}
			r.counts["send"]++
			c.Replace(&ast.ExprStmt{X: r.call(r.variant("Send", n.Chan), n.Chan, n.Value)})
		case *ast.UnaryExpr:
			if n.Op != token.ARROW || r.inComm[n] {
				return true
			}
			// v, ok := <-ch is handled at the AssignStmt / ValueSpec
			if as, ok := c.Parent().(*ast.AssignStmt); ok && len(as.Lhs) == 2 && len(as.Rhs) == 1 {
				r.counts["recv2"]++
				c.Replace(r.call(r.variant("Recv2", n.X), n.X))
				return true
			}
			if vs, ok := c.Parent().(*ast.ValueSpec); ok && len(vs.Names) == 2 && len(vs.Values) == 1 {
				r.counts["recv2"]++
				c.Replace(r.call(r.variant("Recv2", n.X), n.X))
				return true
			}
			r.counts["recv"]++
			c.Replace(r.call(r.variant("Recv", n.X), n.X))
		case *ast.RangeStmt:
			t := r.info.TypeOf(n.X)
			if t == nil {
				return true
			}
			switch t.Underlying().(type) {
			case *types.Chan:
				c.Replace(r.rewriteRangeChan(n))
			case *types.Map:
				c.Replace(r.rewriteRangeMap(n))
			}
		case *ast.SelectStmt:
			c.Replace(r.rewriteSelect(n))
		}
		return true
	}
	astutil.Apply(r.file, nil, post)

	if r.used {
		astutil.AddImport(r.fset, r.file, simrtPath)
	}
	// drop imports that became unused
	imports := append([]*ast.ImportSpec(nil), r.file.Imports...)
	for _, imp := range imports {
		if imp == nil || imp.Path == nil {
			continue
		}
		path := strings.Trim(imp.Path.Value, `"`)
		if imp.Name != nil && (imp.Name.Name == "_" || imp.Name.Name == ".") {
			continue
		}
		if path == simrtPath {
			continue
		}
		if !astutil.UsesImport(r.file, path) {
			if imp.Name != nil {
				astutil.DeleteNamedImport(r.fset, r.file, imp.Name.Name, path)
			} else {
				astutil.DeleteImport(r.fset, r.file, path)
			}
		}
	}
}

func (r *rewriter) site(pos token.Pos) ast.Expr {
	p := r.fset.Position(pos)
	return &ast.BasicLit{Kind: token.STRING, Value: fmt.Sprintf("%q", fmt.Sprintf("%s:%d", filepath.Base(p.Filename), p.Line))}
}

func (r *rewriter) rewriteGo(n *ast.GoStmt) ast.Stmt {
	r.counts["go"]++
	call := n.Call
	if fl, ok := call.Fun.(*ast.FuncLit); ok && len(call.Args) == 0 {
		return &ast.ExprStmt{X: r.call("Go", r.site(n.Pos()), fl)}
	}
	// general form: evaluate function value and arguments now, call later
	var stmts []ast.Stmt
	var lhs, rhs []ast.Expr
	fun := call.Fun
	needFn := true
	if id, ok := fun.(*ast.Ident); ok {
		if _, isFunc := r.info.Uses[id].(*types.Func); isFunc {
			needFn = false
		}
		if _, isBuiltin := r.info.Uses[id].(*types.Builtin); isBuiltin {
			gap(r.fset, n.Pos(), "go statement with builtin")
			needFn = false
		}
	}
	if sel, ok := fun.(*ast.SelectorExpr); ok {
		if id, ok := sel.X.(*ast.Ident); ok {
			if _, isPkg := r.info.Uses[id].(*types.PkgName); isPkg {
				needFn = false
			}
		}
	}
	if needFn {
		lhs = append(lhs, ast.NewIdent("_vgo_f"))
		rhs = append(rhs, fun)
		fun = ast.NewIdent("_vgo_f")
	}
	var args []ast.Expr
	for i, a := range call.Args {
		name := fmt.Sprintf("_vgo_a%d", i)
		lhs = append(lhs, ast.NewIdent(name))
		rhs = append(rhs, a)
		args = append(args, ast.NewIdent(name))
	}
	if len(lhs) > 0 {
		stmts = append(stmts, &ast.AssignStmt{Lhs: lhs, Tok: token.DEFINE, Rhs: rhs})
	}
	inner := &ast.CallExpr{Fun: fun, Args: args, Ellipsis: call.Ellipsis}
	if call.Ellipsis != token.NoPos {
		inner.Ellipsis = 1
	}
	fl := &ast.FuncLit{Type: &ast.FuncType{Params: &ast.FieldList{}},
		Body: &ast.BlockStmt{List: []ast.Stmt{&ast.ExprStmt{X: inner}}}}
	stmts = append(stmts, &ast.ExprStmt{X: r.call("Go", r.site(n.Pos()), fl)})
	return &ast.BlockStmt{List: stmts}
}

func (r *rewriter) rewriteCall(n *ast.CallExpr) ast.Expr {
	if pkg, name := r.pkgOf(n); pkg != "" {
		switch pkg {
		case "time":
			switch name {
			case "Sleep":
				r.counts["sleep"]++
				return r.call("Sleep", n.Args...)
			case "NewTimer", "NewTicker", "AfterFunc", "Tick":
				gap(r.fset, n.Pos(), "time.%s is not owned by the simulator", name)
			}
		case "net":
			switch name {
			case "Dial":
				r.counts["dial"]++
				return r.call("Dial", n.Args...)
			case "DialTimeout":
				r.counts["dial"]++
				return r.call("DialTimeout", n.Args...)
			case "Listen", "ListenTCP", "DialTCP", "DialUDP":
				gap(r.fset, n.Pos(), "net.%s is not owned by the simulator", name)
			}
		case "math/rand":
			switch name {
			case "Uint64":
				r.counts["rand"]++
				return r.call("RandUint64")
			case "New", "NewSource":
			default:
				gap(r.fset, n.Pos(), "math/rand.%s uses the runtime-seeded global generator", name)
			}
		case "github.com/tokenized/pkg/bitcoin":
			if name == "GenerateSeedValue" && len(n.Args) == 0 {
				// crypto/rand session hash: carried bytes only, but the DER length of signatures
				// over it varies, which would make stream offsets (and fragmentation draws)
				// differ between replays
				r.counts["seed"]++
				return r.call("SeedValue", n.Fun)
			}
		case "context":
			switch name {
			case "WithTimeout", "WithDeadline":
				gap(r.fset, n.Pos(), "context.%s starts a timer the simulator does not own", name)
			}
		case "sync":
			if name == "NewCond" {
				gap(r.fset, n.Pos(), "sync.NewCond")
			}
		case "sync/atomic":
			// atomic.AddUint32(&x, 1) -> simrt.Pre(atomic.AddUint32)(&x, 1): a pre-emption point
			// in front of the operation
			r.counts["atomic"]++
			return &ast.CallExpr{Fun: r.call("Pre", n.Fun), Args: n.Args, Ellipsis: n.Ellipsis}
		}
		return nil
	}
	// (*net.Dialer).DialContext
	if sel, ok := n.Fun.(*ast.SelectorExpr); ok {
		if selection := r.info.Selections[sel]; selection != nil && selection.Kind() == types.MethodVal {
			if fn, ok := selection.Obj().(*types.Func); ok && fn.Pkg() != nil {
				if fn.Pkg().Path() == "net" && (fn.Name() == "DialContext" || fn.Name() == "Dial") {
					recvT := r.info.TypeOf(sel.X)
					var d ast.Expr = sel.X
					if _, isPtr := recvT.Underlying().(*types.Pointer); !isPtr {
						d = &ast.UnaryExpr{Op: token.AND, X: sel.X}
					}
					if fn.Name() == "DialContext" {
						r.counts["dial"]++
						return r.call("DialContext", append([]ast.Expr{d}, n.Args...)...)
					}
					gap(r.fset, n.Pos(), "net.Dialer.Dial")
				}
				if fn.Pkg().Path() == "sync/atomic" {
					// v.Load() -> simrt.Pre(v.Load)() for atomic.Value, atomic.Bool, ...
					r.counts["atomic"]++
					return &ast.CallExpr{Fun: r.call("Pre", n.Fun), Args: n.Args, Ellipsis: n.Ellipsis}
				}
				if fn.Pkg().Path() == "sync" {
					tname, mname, ptr, ok := r.syncMethod(n)
					if !ok {
						gap(r.fset, n.Pos(), "unresolvable sync method call")
						return nil
					}
					switch tname {
					case "Mutex":
						switch mname {
						case "Lock":
							r.counts["lock"]++
							return r.call("Lock", ptr)
						case "Unlock":
							r.counts["unlock"]++
							return r.call("Unlock", ptr)
						default:
							gap(r.fset, n.Pos(), "sync.Mutex.%s", mname)
						}
					case "RWMutex":
						switch mname {
						case "Lock":
							r.counts["lock"]++
							return r.call("RWLock", ptr)
						case "Unlock":
							r.counts["unlock"]++
							return r.call("RWUnlock", ptr)
						case "RLock":
							r.counts["lock"]++
							return r.call("RLock", ptr)
						case "RUnlock":
							r.counts["unlock"]++
							return r.call("RUnlock", ptr)
						default:
							gap(r.fset, n.Pos(), "sync.RWMutex.%s", mname)
						}
					case "WaitGroup":
						if mname == "Wait" {
							r.counts["wgwait"]++
							return r.call("WaitGroupWait", ptr)
						}
					case "Once":
						// Once.Do never blocks unless f does; f's own operations are rewritten.
					default:
						gap(r.fset, n.Pos(), "sync.%s.%s is not owned by the simulator", tname, mname)
					}
				}
			}
		}
	}
	return nil
}

func (r *rewriter) rewriteRangeChan(n *ast.RangeStmt) ast.Stmt {
	r.counts["rangechan"]++
	// for v := range ch { body }  =>  for { v, ok := Recv2(ch); if !ok { break }; body }
	okName := ast.NewIdent("_vrc_ok")
	var key ast.Expr = ast.NewIdent("_")
	tok := token.DEFINE
	if n.Key != nil {
		key = n.Key
		if n.Tok == token.ASSIGN {
			// v = range ch : declare ok separately
			tok = token.ASSIGN
		}
	}
	recv := r.call(r.variant("Recv2", n.X), n.X)
	var head []ast.Stmt
	if tok == token.ASSIGN {
		head = append(head, &ast.DeclStmt{Decl: &ast.GenDecl{Tok: token.VAR, Specs: []ast.Spec{
			&ast.ValueSpec{Names: []*ast.Ident{okName}, Type: ast.NewIdent("bool")}}}})
		head = append(head, &ast.AssignStmt{Lhs: []ast.Expr{key, okName}, Tok: token.ASSIGN, Rhs: []ast.Expr{recv}})
	} else {
		head = append(head, &ast.AssignStmt{Lhs: []ast.Expr{key, okName}, Tok: token.DEFINE, Rhs: []ast.Expr{recv}})
	}
	head = append(head, &ast.IfStmt{Cond: &ast.UnaryExpr{Op: token.NOT, X: okName},
		Body: &ast.BlockStmt{List: []ast.Stmt{&ast.BranchStmt{Tok: token.BREAK}}}})
	body := &ast.BlockStmt{List: append(head, n.Body.List...)}
	// NOTE: the channel expression is re-evaluated per iteration; require it to be side-effect free
	if !pureExpr(n.X) {
		gap(r.fset, n.X.Pos(), "range over channel expression with possible side effects")
	}
	return &ast.ForStmt{Body: body}
}

func pureExpr(e ast.Expr) bool {
	switch x := e.(type) {
	case *ast.Ident:
		return true
	case *ast.SelectorExpr:
		return pureExpr(x.X)
	case *ast.ParenExpr:
		return pureExpr(x.X)
	case *ast.StarExpr:
		return pureExpr(x.X)
	}
	return false
}

func (r *rewriter) rewriteRangeMap(n *ast.RangeStmt) ast.Stmt {
	r.counts["rangemap"]++
	if !pureExpr(n.X) {
		gap(r.fset, n.X.Pos(), "range over map expression with possible side effects")
	}
	keysCall := r.call("Keys", n.X)
	isBlank := func(e ast.Expr) bool {
		if e == nil {
			return true
		}
		id, ok := e.(*ast.Ident)
		return ok && id.Name == "_"
	}
	var key ast.Expr = n.Key
	keyTok := n.Tok
	if isBlank(n.Key) {
		key = ast.NewIdent("_vrm_k")
		keyTok = token.DEFINE
	}
	if n.Tok == token.ASSIGN && !isBlank(n.Value) && isBlank(n.Key) {
		// for _, v = range m : key is ours (DEFINE) but value is assigned
		loop := &ast.RangeStmt{Key: ast.NewIdent("_"), Value: key, Tok: token.DEFINE, X: keysCall}
		okN := ast.NewIdent("_vrm_ok")
		tmp := ast.NewIdent("_vrm_v")
		get := &ast.AssignStmt{Lhs: []ast.Expr{tmp, okN}, Tok: token.DEFINE,
			Rhs: []ast.Expr{&ast.IndexExpr{X: n.X, Index: key}}}
		skip := &ast.IfStmt{Cond: &ast.UnaryExpr{Op: token.NOT, X: okN},
			Body: &ast.BlockStmt{List: []ast.Stmt{&ast.BranchStmt{Tok: token.CONTINUE}}}}
		set := &ast.AssignStmt{Lhs: []ast.Expr{n.Value}, Tok: token.ASSIGN, Rhs: []ast.Expr{tmp}}
		loop.Body = &ast.BlockStmt{List: append([]ast.Stmt{get, skip, set}, n.Body.List...)}
		return loop
	}
	loop := &ast.RangeStmt{Key: ast.NewIdent("_"), Value: key, Tok: keyTok, X: keysCall}
	if keyTok == token.ASSIGN {
		// for k = range m / for k, v = range m with existing variables
		loop.Tok = token.ASSIGN
	}
	okN := ast.NewIdent("_vrm_ok")
	var head []ast.Stmt
	if isBlank(n.Value) {
		get := &ast.AssignStmt{Lhs: []ast.Expr{ast.NewIdent("_"), okN}, Tok: token.DEFINE,
			Rhs: []ast.Expr{&ast.IndexExpr{X: n.X, Index: key}}}
		head = append(head, get)
	} else if n.Tok == token.DEFINE {
		get := &ast.AssignStmt{Lhs: []ast.Expr{n.Value, okN}, Tok: token.DEFINE,
			Rhs: []ast.Expr{&ast.IndexExpr{X: n.X, Index: key}}}
		head = append(head, get)
	} else {
		tmp := ast.NewIdent("_vrm_v")
		get := &ast.AssignStmt{Lhs: []ast.Expr{tmp, okN}, Tok: token.DEFINE,
			Rhs: []ast.Expr{&ast.IndexExpr{X: n.X, Index: key}}}
		set := &ast.AssignStmt{Lhs: []ast.Expr{n.Value}, Tok: token.ASSIGN, Rhs: []ast.Expr{tmp}}
		head = append(head, get, set)
	}
	skip := &ast.IfStmt{Cond: &ast.UnaryExpr{Op: token.NOT, X: okN},
		Body: &ast.BlockStmt{List: []ast.Stmt{&ast.BranchStmt{Tok: token.CONTINUE}}}}
	// insert skip right after the lookup
	full := []ast.Stmt{head[0], skip}
	full = append(full, head[1:]...)
	// a value variable declared but possibly unused in the body would not compile in the original
	loop.Body = &ast.BlockStmt{List: append(full, n.Body.List...)}
	return loop
}

func (r *rewriter) rewriteSelect(n *ast.SelectStmt) ast.Stmt {
	r.counts["select"]++
	r.nsel++
	id := r.nsel
	var decls []ast.Stmt
	var clauses []ast.Stmt
	var caseArgs []ast.Expr
	hasDefault := false
	idx := 0
	for _, c := range n.Body.List {
		cc := c.(*ast.CommClause)
		if cc.Comm == nil {
			hasDefault = true
			clauses = append(clauses, &ast.CaseClause{List: nil, Body: cc.Body})
			continue
		}
		name := ast.NewIdent(fmt.Sprintf("_vsel%d_%d", id, idx))
		var ctor ast.Expr
		var pre []ast.Stmt
		switch s := cc.Comm.(type) {
		case *ast.SendStmt:
			ctor = r.call(r.variant("NewSend", s.Chan), s.Chan, s.Value)
		case *ast.ExprStmt:
			u, ok := unparen(s.X).(*ast.UnaryExpr)
			if !ok || u.Op != token.ARROW {
				gap(r.fset, s.Pos(), "unsupported select communication")
				continue
			}
			ctor = r.call(r.variant("NewRecv", u.X), u.X)
		case *ast.AssignStmt:
			u, ok := unparen(s.Rhs[0]).(*ast.UnaryExpr)
			if !ok || u.Op != token.ARROW {
				gap(r.fset, s.Pos(), "unsupported select communication")
				continue
			}
			ctor = r.call(r.variant("NewRecv", u.X), u.X)
			rhs := []ast.Expr{&ast.SelectorExpr{X: name, Sel: ast.NewIdent("Val")}}
			if len(s.Lhs) == 2 {
				rhs = append(rhs, &ast.SelectorExpr{X: name, Sel: ast.NewIdent("Ok")})
			}
			pre = append(pre, &ast.AssignStmt{Lhs: s.Lhs, Tok: s.Tok, Rhs: rhs})
		default:
			gap(r.fset, cc.Pos(), "unsupported select communication")
			continue
		}
		decls = append(decls, &ast.AssignStmt{Lhs: []ast.Expr{name}, Tok: token.DEFINE, Rhs: []ast.Expr{ctor}})
		caseArgs = append(caseArgs, name)
		clauses = append(clauses, &ast.CaseClause{
			List: []ast.Expr{&ast.BasicLit{Kind: token.INT, Value: fmt.Sprint(idx)}},
			Body: append(pre, cc.Body...)})
		idx++
	}
	hd := ast.NewIdent("false")
	if hasDefault {
		hd = ast.NewIdent("true")
	} else {
		// keeps the statement "terminating" when every clause of the original select returns
		clauses = append(clauses, &ast.CaseClause{List: nil, Body: []ast.Stmt{&ast.ExprStmt{X: &ast.CallExpr{
			Fun: ast.NewIdent("panic"), Args: []ast.Expr{&ast.BasicLit{Kind: token.STRING, Value: `"simrt.Select: unreachable"`}}}}}})
	}
	sw := &ast.SwitchStmt{Tag: r.call("Select", append([]ast.Expr{hd}, caseArgs...)...),
		Body: &ast.BlockStmt{List: clauses}}
	return &ast.BlockStmt{List: append(decls, sw)}
}

func unparen(e ast.Expr) ast.Expr {
	for {
		p, ok := e.(*ast.ParenExpr)
		if !ok {
			return e
		}
		e = p.X
	}
}
