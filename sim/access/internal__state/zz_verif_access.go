package state

import "github.com/tokenized/pkg/bitcoin"

// Read-only accessors for the simulation harness (mounted by build overlay only).

func (state *State) VerifPendingBlockSize() int {
	state.lock.Lock()
	defer state.lock.Unlock()
	return state.pendingBlockSize
}

type VerifRequest struct {
	Hash     bitcoin.Hash32
	HasBlock bool
	Size     int
}

func (state *State) VerifRequested() []VerifRequest {
	state.lock.Lock()
	defer state.lock.Unlock()
	out := make([]VerifRequest, 0, len(state.blocksRequested))
	for _, r := range state.blocksRequested {
		out = append(out, VerifRequest{Hash: r.hash, HasBlock: r.block != nil, Size: r.size})
	}
	return out
}

func (state *State) VerifToRequest() []bitcoin.Hash32 {
	state.lock.Lock()
	defer state.lock.Unlock()
	return append([]bitcoin.Hash32(nil), state.blocksToRequest...)
}

const VerifMaxRequestedBlocks = maxRequestedBlocks
