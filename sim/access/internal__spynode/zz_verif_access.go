package spynode

import (
	"github.com/tokenized/spynode/internal/state"
	internalStorage "github.com/tokenized/spynode/internal/storage"
)

// Read-only accessors for the simulation harness (mounted by build overlay only).

func (node *Node) VerifBlocks() *internalStorage.BlockRepository { return node.blocks }
func (node *Node) VerifState() *state.State                      { return node.state }
func (node *Node) VerifTxs() *internalStorage.TxRepository       { return node.txs }
func (node *Node) VerifMemPool() *state.MemPool                  { return node.memPool }
func (node *Node) VerifPeers() *internalStorage.PeerRepository   { return node.peers }
