package storage

import (
	"time"

	"github.com/tokenized/pkg/bitcoin"
)

// Read-only accessors for the simulation harness (mounted by build overlay only).

type VerifUnconfirmed struct {
	Time    time.Time
	Unsafe  bool
	Safe    bool
	Trusted bool
}

func (repo *TxRepository) VerifUnconfirmedSet() map[bitcoin.Hash32]VerifUnconfirmed {
	repo.unconfirmedLock.Lock()
	defer repo.unconfirmedLock.Unlock()
	out := make(map[bitcoin.Hash32]VerifUnconfirmed, len(repo.unconfirmed))
	for k, v := range repo.unconfirmed {
		out[k] = VerifUnconfirmed{Time: v.time, Unsafe: v.unsafe, Safe: v.safe, Trusted: v.trusted}
	}
	return out
}
