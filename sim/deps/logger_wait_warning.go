package logger

import (
	"context"
	"sync"
	"time"
)

// Simulation stub: the original starts one goroutine and one 3 s timer per call (it is called
// from every mempool operation) only to print a diagnostic when a lock is slow to acquire.
// It never influences behaviour, so the simulated build makes it inert.
type WaitingWarning struct {
	active bool
	sync.Mutex
}

func NewWaitingWarning(ctx context.Context, frequency time.Duration, format string,
	values ...interface{}) *WaitingWarning {
	return &WaitingWarning{active: true}
}

func (w *WaitingWarning) Cancel() {
	w.active = false
}
