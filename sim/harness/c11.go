//go:build go1.26

package verifsim

import (
	"bytes"
	"fmt"
	"time"

	"github.com/tokenized/pkg/bitcoin"
	"github.com/tokenized/spynode/internal/storage"
	"verif.local/simrt"
)

// ---- C11: transaction tracking survives a clean restart ----------------------------------------

func (e *txEval) checkRestart(c *Ctx) {
	tr := e.tr
	ns := tr.ns
	if len(tr.restarts) < 2 {
		return
	}
	c.Probe("restarted")
	stopAt, startAt := tr.restarts[0], tr.restarts[1]
	delay := time.Duration(tr.sc.safeDelay) * time.Millisecond
	// when was the new instance ready again?
	readyAgain := time.Duration(-1)
	for _, s := range tr.samples {
		if s.at >= startAt && s.ready {
			readyAgain = s.at
			break
		}
	}
	for _, h := range e.hs {
		ts := h.spec
		var before, after []Callback
		for _, cb := range h.newCalls {
			if cb.At <= stopAt {
				before = append(before, cb)
			} else {
				after = append(after, cb)
			}
		}
		if len(before) == 0 {
			continue
		}
		c.Probe("tracked_across_restart")
		wasConfirmed := before[0].Tx.State.MerkleProof != nil
		for _, u := range h.updates {
			if u.At <= stopAt && u.Update.State.MerkleProof != nil {
				wasConfirmed = true
			}
		}
		if len(after) > 0 {
			k := "unconfirmed-before-restart"
			if wasConfirmed {
				k = "confirmed-before-restart"
			}
			c.Violate("restart-redelivered", k, "%s was delivered as new before the restart (t=%v) and again after it (t=%v); states %s", e.label(ts), before[0].At, after[0].At, e.stateList(h))
		}
		// confirmation after the restart must be an update with a proof
		if !wasConfirmed && ts.inBlock >= 0 {
			if at, ok := tr.minedAt[ts.inBlock]; ok && at > startAt {
				blk := tr.mined[ts.inBlock]
				hash, err := ns.Node.Hash(ns.ctx(), blk.Height)
				if err == nil && *hash == blk.Hash {
					found := false
					for _, u := range h.updates {
						if u.At > startAt && u.Update.State.MerkleProof != nil && *u.Update.State.MerkleProof.BlockHeader.BlockHash() == blk.Hash {
							found = true
						}
					}
					if !found {
						c.Violate("restart-confirm", "update-missing", "%s was delivered before the restart and confirmed in processed block %s after it, but no update with a proof followed; states %s", e.label(ts), blk, e.stateList(h))
					}
					c.Probe("confirmed_after_restart")
				}
			}
		}
		// flags
		safeBefore, unsafeBefore := false, false
		for _, s := range h.states() {
			if s.at <= startAt { // includes notifications issued by the old instance while it shuts down
				if s.st.Safe {
					safeBefore = true
				}
				if s.st.UnSafe {
					unsafeBefore = true
				}
			} else if s.st.MerkleProof == nil {
				if s.st.Safe && safeBefore && !s.isNew {
					c.Violate("restart-flags", "safe-again", "%s was reported safe before the restart and again after it; states %s", e.label(ts), e.stateList(h))
				}
				if s.st.Safe && unsafeBefore {
					c.Violate("restart-flags", "safe-after-unsafe", "%s was unsafe before the restart and is reported safe after it; states %s", e.label(ts), e.stateList(h))
				}
			}
		}
		// first-seen time and trusted flag: a vouched, conflict-free transaction that was not yet
		// safe at the restart becomes safe at first-seen + delay (or as soon as the node is back)
		if !wasConfirmed && !safeBefore && !unsafeBefore && h.trustedAt >= 0 && h.trustedAt < stopAt && h.localAt < 0 && readyAgain >= 0 && !tr.sc.slowHandler {
			conflictFree := true
			for _, o := range tr.sc.txs {
				if o != ts && sharesOutpoint(o, ts) {
					conflictFree = false
				}
			}
			due := h.firstBodyAt + delay
			if h.trustedAt > h.firstBodyAt {
				due = h.trustedAt + delay // the delay restarts when the trusted peer vouches
			}
			if due < readyAgain {
				due = readyAgain
			}
			if conflictFree && !e.minedBefore(ts, due+5*time.Second) && tr.readyThroughout(due, due+3*time.Second) {
				c.Probe("safe_due_after_restart")
				var got *time.Duration
				for _, s := range h.states() {
					if s.at > startAt && s.st.Safe && got == nil {
						t := s.at
						got = &t
					}
				}
				if got == nil || *got > due+3*time.Second {
					k := "time-or-trusted-flag"
					c.Violate("restart-time", k, "%s (first seen t=%v, vouched t=%v, delay %v, node back in sync t=%v) was due safe by t=%v+3s after the restart but the safe report came at %v; states %s", e.label(ts), h.firstBodyAt, h.trustedAt, delay, readyAgain, due, got, e.stateList(h))
				}
				if got != nil && *got-h.firstBodyAt < delay {
					c.Violate("restart-time", "early", "%s was reported safe %v after it was first seen (delay %v) across a restart", e.label(ts), *got-h.firstBodyAt, delay)
				}
			}
		}
	}
	// stored copy of every delivered transaction
	for _, cb := range ns.Rec.Log {
		if cb.Kind != "tx" {
			continue
		}
		txid := *cb.Tx.Tx.TxHash()
		got, err := ns.Node.GetTx(ns.ctx(), txid)
		if err != nil || got == nil {
			c.Violate("gettx-missing", "GetTx", "GetTx(%s) for a delivered transaction failed: %v", shortHash(txid), err)
			continue
		}
		if !bytes.Equal(txBytes(got), txBytes(cb.Tx.Tx)) {
			c.Violate("gettx-mismatch", "GetTx", "GetTx(%s) returns a transaction different from the one sent to handlers", shortHash(txid))
		}
		c.Probe("gettx_checked")
	}
}

func init() {
	Register(&Check{Prop: "C11", Sub: "restart-node", Weight: 3, Real: txReal, Stub: txStub,
		Req:  []string{"in_sync_reached", "restarted", "tracked_across_restart", "gettx_checked", "safe_due_after_restart", "confirmed_after_restart"},
		Rule: "transaction histories (deliveries, conflicts, safe reports, confirmations) with a clean Stop + new node on the same simulated disk inserted at a quiescent point, re-announcements and confirmations after it; non-trivial = the restart happened.",
		Run: func(c *Ctx) {
			ns := NewNodeSim(c)
			ns.TxW.NoFetchTx = true
			sc := genTxScenario(c, ns.TxW, txGenOpts{conflicts: 1, blocks: true, untrusted: true, restart: true, maxTxs: 8, safeDelays: []int{0, 500, 5000, 8000}})
			if sc.restartAt == 0 {
				sc.restartAt = time.Duration(1500+c.Scen.Choose(4000)) * time.Millisecond
			}
			tr := newTxRun(c, sc, ns)
			c.Res.Summary = sc.String()
			done := false
			simrt.Go("driver", func() {
				defer func() { done = true; tr.done = true }()
				tr.drive()
				if c.Res.Inconclusive != "" {
					return
				}
				simrt.NoPreempt(func() {
					e := newTxEval(tr)
					e.checkRestart(c)
					e.checkSafe(c, false)
				})
				c.Res.Nontrivial = len(tr.restarts) == 2
			})
			ns.S.Run(func() bool { return done })
			if !done && len(c.Res.Violations) == 0 && c.Res.Inconclusive == "" && !ns.S.Zeno && !ns.S.StepCap {
				c.Res.Inconclusive = "driver-stuck"
			}
			reportPanics(c, ns)
		}})
	Register(&Check{Prop: "C11", Sub: "unconfirmed-file", Weight: 1,
		Real: []string{"internal/storage.TxRepository (Add, MarkUnsafe, MarkTrusted, GetNewSafe, Save, Load)"}, Stub: []string{"disk (simdisk)", "clock (synctest)"},
		Rule: "unconfirmed sets of 0..8 entries with every flag combination and distinct first-seen times, saved and loaded into a fresh repository over one to three generations on the same disk (between saves the set is finalised to all / some / none of its entries like after a confirming block, and grows again); non-trivial = at least one entry.",
		Run: func(c *Ctx) {
			t := c.Scen
			for k := 0; k < 40; k++ {
				disk := NewSimDisk()
				ctx := quietCtx()
				repo := storage.NewTxRepository(disk)
				n := int(t.Choose(9))
				desc := fmt.Sprintf("n=%d:", n)
				for i := 0; i < n; i++ {
					id := dsha([]byte(fmt.Sprintf("u%d-%d-%d", c.Run, k, i)))
					flags := int(t.Choose(8))
					time.Sleep(time.Duration(1+t.Choose(2500)) * time.Millisecond)
					repo.Add(ctx, bitcoin.Hash32(id), flags&1 != 0, flags&2 != 0, -1)
					if flags&4 != 0 {
						repo.MarkUnsafe(ctx, bitcoin.Hash32(id))
					}
					desc += fmt.Sprintf(" %d", flags)
				}
				// one to three generations on the same disk: between saves the set shrinks the way it
				// does when a block confirms tracked transactions (possibly to nothing) and grows again
				gens := 1 + int(t.Choose(3))
				var got, want map[bitcoin.Hash32]storage.VerifUnconfirmed
				for gen := 0; gen < gens; gen++ {
					if gen > 0 {
						ids, err := repo.GetUnconfirmed(ctx)
						if err != nil {
							c.Violate("restart-file", "get-unconfirmed", "%v", err)
							return
						}
						keep := ids[:0:0]
						mode := t.Choose(3) // 0: everything confirms, 1: some, 2: none
						for _, id := range ids {
							if mode == 2 || (mode == 1 && t.Bool(1, 2)) {
								keep = append(keep, id)
							}
						}
						if err := repo.FinalizeUnconfirmed(ctx, keep); err != nil {
							c.Violate("restart-file", "finalize", "%v", err)
							return
						}
						desc += fmt.Sprintf(" | keep %d of %d", len(keep), len(ids))
						if len(keep) == 0 && len(ids) > 0 {
							c.Probe("set_emptied_before_save")
						}
						for i := int(t.Choose(3)); i > 0 && mode != 0; i-- {
							id := dsha([]byte(fmt.Sprintf("u%d-%d-g%d-%d", c.Run, k, gen, i)))
							repo.Add(ctx, bitcoin.Hash32(id), t.Bool(1, 2), t.Bool(1, 2), -1)
							desc += " +1"
						}
					}
					want = repo.VerifUnconfirmedSet()
					if err := repo.Save(ctx); err != nil {
						c.Violate("restart-file", "save", "Save failed: %v", err)
						return
					}
					repo2 := storage.NewTxRepository(disk)
					if err := repo2.Load(ctx); err != nil {
						c.Violate("restart-file", "load", "Load failed after Save of %s: %v", desc, err)
						return
					}
					got = repo2.VerifUnconfirmedSet()
					if len(got) != len(want) {
						break
					}
					if gen+1 < gens && t.Bool(1, 2) {
						repo = repo2 // carry on in the restarted repository
					}
				}
				c.NoteCase(n > 0, desc)
				if len(got) != len(want) {
					c.Violate("restart-file", "count", "saved %d unconfirmed entries, loaded %d (%s)", len(want), len(got), desc)
					return
				}
				for id, w := range want {
					g, ok := got[id]
					if !ok {
						c.Violate("restart-file", "entry-missing", "entry %s lost by save/load (%s)", shortHash(id), desc)
						return
					}
					if g.Safe != w.Safe || g.Unsafe != w.Unsafe || g.Trusted != w.Trusted {
						c.Violate("restart-file", "flags", "entry saved as safe=%v unsafe=%v trusted=%v loaded as safe=%v unsafe=%v trusted=%v", w.Safe, w.Unsafe, w.Trusted, g.Safe, g.Unsafe, g.Trusted)
						return
					}
					if g.Time.UnixMilli() != w.Time.UnixMilli() {
						c.Violate("restart-file", "time", "first-seen time %v loaded as %v (millisecond precision required)", w.Time, g.Time)
						return
					}
				}
			}
			c.Res.Nontrivial = true
		}})
}
