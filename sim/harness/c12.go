//go:build go1.26

package verifsim

import (
	"bytes"
	"encoding/binary"
	"fmt"
	"sort"
	"time"

	"github.com/tokenized/pkg/bitcoin"
	"github.com/tokenized/pkg/wire"
	"github.com/tokenized/spynode/internal/storage"
	"verif.local/simrt"
)

// ---- C12: untrusted peers cannot alter the chain, vouch for transactions or stall syncing -------

type advState struct {
	name      string
	verified  bool // answered the node's chain-check honestly (linked headers, first known and recent)
	sentBad   []string
	pushedTxs map[bitcoin.Hash32]bool
}

type c12run struct {
	c        *Ctx
	cr       *chainRun
	ns       *NodeSim
	adv      map[*PeerConn]*advState
	advOrder []*PeerConn
	trustedTxs []*wire.MsgTx // relevant transactions the trusted peer vouches for
	announcedReady []bitcoin.Hash32 // announced by the trusted peer while the node was in sync
	advTxs     []*wire.MsgTx // relevant transactions only adversaries know
	announcedByTrusted map[bitcoin.Hash32]bool
	forged   []*WBlock
}

func rawMessage(command string, payload []byte) []byte {
	var buf bytes.Buffer
	var hdr [24]byte
	binary.LittleEndian.PutUint32(hdr[0:4], uint32(simNet))
	copy(hdr[4:16], command)
	binary.LittleEndian.PutUint32(hdr[16:20], uint32(len(payload)))
	sum := dsha(payload)
	copy(hdr[20:24], sum[:4])
	buf.Write(hdr[:])
	buf.Write(payload)
	return buf.Bytes()
}

// adversary drives one untrusted connection.
func (r *c12run) adversary(pc *PeerConn) {
	ns, t := r.ns, r.c.Scen
	st := &advState{name: pc.String(), pushedTxs: map[bitcoin.Hash32]bool{}}
	r.adv[pc] = st
	r.advOrder = append(r.advOrder, pc)
	honestCheck := t.Bool(2, 3)
	steps := 3 + int(t.Choose(12))
	send := func(m wire.Message) {
		// blocks and transactions also travel in the large-message envelope
		if cmd := m.Command(); (cmd == wire.CmdBlock || cmd == wire.CmdTx) && t.Bool(1, 3) {
			var buf bytes.Buffer
			if err := m.BtcEncode(&buf, wire.ProtocolVersion); err == nil {
				r.c.Probe("extmsg_sent")
				pc.Send(wire.NewMsgExtended(cmd, buf.Bytes()))
				return
			}
		}
		pc.Send(m)
	}
	for i := 0; i < steps && !pc.Dead && !pc.C.IsClosed(); i++ {
		simrt.Sleep(time.Duration(1+t.Choose(1500)) * time.Millisecond)
		best := ns.Trusted.Best
		chain := Chain(best)
		switch t.Choose(13) {
		case 0: // an unlinked list of headers
			hm := wire.NewMsgHeaders()
			for _, h := range []int{best.Height, best.Height - 2, best.Height - 1} {
				if h >= 0 {
					hdr := chain[h].Header
					hm.AddBlockHeader(&hdr)
				}
			}
			send(hm)
			st.sentBad = append(st.sentBad, "headers-unlinked")
		case 1: // unknown first header
			fork := r.forgeBlock(chain[max0(best.Height-1)])
			hm := wire.NewMsgHeaders()
			hdr := fork.Header
			hm.AddBlockHeader(&hdr)
			send(hm)
			st.sentBad = append(st.sentBad, "headers-unknown")
		case 2: // too old
			hm := wire.NewMsgHeaders()
			for h := 1; h <= 3 && h <= best.Height; h++ {
				hdr := chain[h].Header
				hm.AddBlockHeader(&hdr)
			}
			send(hm)
			st.sentBad = append(st.sentBad, "headers-old")
		case 3:
			send(wire.NewMsgHeaders())
			st.sentBad = append(st.sentBad, "headers-empty")
		case 4, 5: // a transaction body nobody asked for (possibly a double spend of a vouched one)
			tx := r.advTxs[t.Choose(uint32(len(r.advTxs)))]
			if t.Bool(1, 3) {
				// ... or one the trusted peer is going to announce: it knows it already
				tx = r.trustedTxs[t.Choose(uint32(len(r.trustedTxs)))]
				r.c.Probe("trusted_tx_pushed_by_untrusted")
			}
			send(tx)
			st.pushedTxs[*tx.TxHash()] = true
		case 6: // announce
			inv := wire.NewMsgInv()
			for _, tx := range r.advTxs {
				if t.Bool(1, 2) {
					inv.AddInvVect(wire.NewInvVect(wire.InvTypeTx, tx.TxHash()))
				}
			}
			for _, tx := range r.trustedTxs {
				if t.Bool(1, 3) {
					inv.AddInvVect(wire.NewInvVect(wire.InvTypeTx, tx.TxHash()))
				}
			}
			if len(inv.InvList) > 0 {
				send(inv)
			}
		case 7: // a block whose header equals the trusted tip (likely an outstanding request) with another body
			blk := best
			if t.Bool(1, 3) && best.Parent != nil {
				blk = best.Parent
			}
			m := &wire.MsgBlock{Header: blk.Header}
			for _, tx := range blk.Txs {
				m.AddTransaction(tx)
			}
			m.AddTransaction(r.advTxs[t.Choose(uint32(len(r.advTxs)))])
			send(m)
			st.sentBad = append(st.sentBad, "block-header-match-bad-body")
		case 8: // a forged block on top of the trusted tip, valid merkle root, with a relevant tx
			f := r.forgeBlock(best)
			send(f.MsgBlock(false))
			hm := wire.NewMsgHeaders()
			hdr := f.Header
			hm.AddBlockHeader(&hdr)
			send(hm)
			st.sentBad = append(st.sentBad, "block-forged")
		case 11: // a relevant transaction spending an output index its (known) parent does not have
			parent := r.trustedTxs[t.Choose(uint32(len(r.trustedTxs)))]
			bad := ns.TxW.NewTx([]wire.OutPoint{{Hash: *parent.TxHash(), Index: uint32(len(parent.TxOut)) + uint32(t.Choose(2))}}, subKey, 1, 8000+i)
			delete(ns.TxW.Txs, *bad.TxHash())
			send(bad)
			st.sentBad = append(st.sentBad, "tx-spending-missing-output")
		case 9: // address flood
			am := wire.NewMsgAddr()
			for k := 0; k < 200; k++ {
				am.AddAddress(wire.NewNetAddressIPPort([]byte{byte(11 + k%200), byte(k), 3, 4}, uint16(8000+k), 0))
			}
			send(am)
		case 10: // unknown command / broken framing
			if t.Bool(1, 2) {
				pc.C.Write(rawMessage("zzgarbage", []byte{1, 2, 3, 4, 5}))
			} else {
				junk := make([]byte, 40+t.Choose(200))
				for k := range junk {
					junk[k] = byte(t.Choose(256))
				}
				pc.C.Write(junk)
				st.sentBad = append(st.sentBad, "garbage-bytes")
			}
		default:
			send(wire.NewMsgPing(uint64(i)))
		}
		_ = honestCheck
	}
}

func max0(x int) int {
	if x < 0 {
		return 0
	}
	return x
}

// forgeBlock creates a block the trusted peer never announces: valid merkle root, one relevant tx.
func (r *c12run) forgeBlock(parent *WBlock) *WBlock {
	tx := r.ns.TxW.NewTx([]wire.OutPoint{r.ns.TxW.Fund(4242)}, subKey, 1, 7000+len(r.forged))
	b := r.ns.Tree.AddBlock(parent, []*wire.MsgTx{tx}, true)
	r.forged = append(r.forged, b)
	return b
}

func runC12(c *Ctx) {
	t := c.Scen
	sc := genChainScenario(c, false)
	if t.Bool(1, 4) {
		// a young chain: the node's chain check of untrusted peers asks for headers six blocks
		// back, which does not exist yet (empty locator, first header at height 1)
		sc.pre = pickFrom(t, 0, 1, 2)
		sc.initLen = pickFrom(t, 1, 2, 3, 4)
		c.Probe("short_chain")
	} else if sc.pre < 8 {
		sc.pre += 8
	}
	sc.startFound = true
	cr := newChainRun(c, sc)
	ns := cr.ns
	maybeStalls(c, ns.S, 2, 10, 50)
	r := &c12run{c: c, cr: cr, ns: ns, adv: map[*PeerConn]*advState{}, announcedByTrusted: map[bitcoin.Hash32]bool{}}
	nUntrusted := 1 + int(t.Choose(3))
	ns.Cfg.UntrustedCount = nUntrusted
	ns.Cfg.SafeTxDelay = pickFrom(t, 0, 200, 2000)
	ns.SubData = [][]byte{subKey}
	// transactions
	for i := 0; i < 2+int(t.Choose(3)); i++ {
		op := ns.TxW.Fund(uint64(900 + i))
		r.trustedTxs = append(r.trustedTxs, ns.TxW.NewTx([]wire.OutPoint{op}, subKey, 1, 100+i))
		// an adversary-only double spend of the same outpoint, and an unrelated one
		r.advTxs = append(r.advTxs, ns.TxW.NewTx([]wire.OutPoint{op}, subKey, 1, 200+i))
		r.advTxs = append(r.advTxs, ns.TxW.NewTx([]wire.OutPoint{ns.TxW.Fund(uint64(950 + i))}, subKey, 1, 300+i))
	}
	ns.Trusted.ServeTx = func(id bitcoin.Hash32) *wire.MsgTx {
		for _, tx := range r.trustedTxs {
			if *tx.TxHash() == id {
				return tx
			}
		}
		return nil
	}
	// seed peers
	repo := storage.NewPeerRepository(ns.Disk)
	ctx := quietCtx()
	repo.Load(ctx)
	if t.Bool(1, 2) {
		// stored peer addresses nobody listens on: the dial is refused
		for k := 0; k < 1+int(t.Choose(3)); k++ {
			addr := untrustedAddr(60 + k)
			repo.Add(ctx, addr)
			repo.UpdateScore(ctx, addr, 5+int32(t.Choose(3)))
		}
		c.FaultConfigured("F-dial")
	}
	for k := 0; k < nUntrusted+2; k++ {
		addr := untrustedAddr(k)
		repo.Add(ctx, addr)
		repo.UpdateScore(ctx, addr, 5)
		p := ns.AddUntrusted(addr)
		p.Name = fmt.Sprintf("adv%d", k)
		p.PingEvery = 0
		honest := t.Bool(2, 3)
		p.ServeTx = func(id bitcoin.Hash32) *wire.MsgTx {
			for _, tx := range r.advTxs {
				if *tx.TxHash() == id {
					return tx
				}
			}
			return nil
		}
		started := map[*PeerConn]bool{}
		p.Hook = func(pc *PeerConn, msg wire.Message) bool {
			if !started[pc] {
				started[pc] = true
				simrt.GoDaemon("adversary:"+pc.String(), func() { r.adversary(pc) })
			}
			switch msg.(type) {
			case *wire.MsgGetHeaders:
				if honest {
					p.Best = ns.Trusted.Best
					if st := r.adv[pc]; st != nil {
						st.verified = true
					} else {
						r.adv[pc] = &advState{name: pc.String(), verified: true, pushedTxs: map[bitcoin.Hash32]bool{}}
					}
					return false // the model answers honestly
				}
				return true // ignore the chain check
			}
			return false
		}
	}
	repo.Save(ctx)
	c.Res.Summary = fmt.Sprintf("untrusted=%d safeDelay=%d %s", nUntrusted, ns.Cfg.SafeTxDelay, sc.String())
	c.FaultConfigured("F-peer-byz")
	cr.installInSyncOracle("insync-early")
	done := false
	simrt.Go("driver", func() {
		defer func() { done = true }()
		noteBest := func() {
			for b := ns.Trusted.Best; b != nil; b = b.Parent {
				if r.announcedByTrusted[b.Hash] {
					break
				}
				r.announcedByTrusted[b.Hash] = true
			}
		}
		noteBest()
		ns.StartNode()
		// adversaries know the header of every new block as soon as it exists: right behind a new
		// block they push a body for that header (while the node's request to the trusted peer is
		// still outstanding)
		snipe := func() {
			for _, pc := range append([]*PeerConn{}, r.advOrder...) {
				if pc.Dead || pc.C.IsClosed() || !t.Bool(1, 2) {
					continue
				}
				pc := pc
				blk := ns.Trusted.Best
				wait := time.Duration(t.Choose(uint32(2*sc.latBase/time.Millisecond+2*sc.latJitter/time.Millisecond+5))) * time.Millisecond
				wrap := t.Bool(1, 2)
				extra := r.advTxs[t.Choose(uint32(len(r.advTxs)))]
				simrt.GoDaemon("adversary-snipe:"+pc.String(), func() {
					simrt.Sleep(wait)
					m := &wire.MsgBlock{Header: blk.Header}
					for _, tx := range blk.Txs {
						m.AddTransaction(tx)
					}
					m.AddTransaction(extra)
					if st := r.adv[pc]; st != nil {
						st.sentBad = append(st.sentBad, "block-header-match-bad-body")
					}
					r.c.Probe("bad_body_right_behind_new_block")
					if wrap {
						var buf bytes.Buffer
						if err := m.BtcEncode(&buf, wire.ProtocolVersion); err == nil {
							pc.Send(wire.NewMsgExtended(wire.CmdBlock, buf.Bytes()))
							return
						}
					}
					pc.Send(m)
				})
			}
		}
		for _, ev := range sc.events {
			simrt.Sleep(ev.after)
			cr.apply(ev)
			noteBest()
			snipe()
		}
		// trusted tx traffic once in sync
		deadline := ns.S.Now() + 5*time.Minute
		for ns.S.Now() < deadline {
			if pc := ns.Trusted.Live(); pc != nil && pc.SendHeaders && ns.Node.VerifState().IsReady() {
				break
			}
			simrt.Sleep(200 * time.Millisecond)
		}
		simrt.Sleep(time.Duration(500+t.Choose(4000)) * time.Millisecond)
		for _, tx := range r.trustedTxs {
			if t.Bool(2, 3) {
				if pc := ns.Trusted.Live(); pc != nil && ns.Node.VerifState().IsReady() {
					r.announcedReady = append(r.announcedReady, *tx.TxHash())
				}
				ns.Trusted.AnnounceTx(tx)
			}
			simrt.Sleep(time.Duration(t.Choose(800)) * time.Millisecond)
		}
		// an untrusted announcer that never delivers delays the request to the trusted peer until
		// the request window is over and the trusted connection shows activity again (its ping)
		simrt.Sleep(50 * time.Second)
		// one more honest block so that "keeps following the trusted chain" is exercised after
		// the adversarial traffic
		cr.apply(chainEvent{kind: "extend", k: 1})
		noteBest()
		snipe()
		ok, why := cr.settle()
		simrt.NoPreempt(func() { r.evaluate(ok, why) })
		c.Res.Nontrivial = true
	})
	ns.S.Run(func() bool { return done })
	if !done && len(c.Res.Violations) == 0 && c.Res.Inconclusive == "" && !ns.S.Zeno && !ns.S.StepCap {
		c.Res.Inconclusive = "driver-stuck"
	}
	reportPanics(c, ns)
}

func (r *c12run) evaluate(converged bool, why string) {
	c, ns := r.c, r.ns
	kinds := map[string]bool{}
	anyVerified := false
	for _, pc := range r.advOrder {
		st := r.adv[pc]
		for _, k := range st.sentBad {
			kinds[k] = true
		}
		if st.verified {
			anyVerified = true
		}
	}
	var ks []string
	for k := range kinds {
		ks = append(ks, k)
	}
	sort.Strings(ks)
	if len(r.advOrder) > 0 {
		c.Probe("untrusted_connected")
		c.FaultFired("F-peer-byz")
	}
	if anyVerified {
		c.Probe("untrusted_verified")
	}
	if !converged {
		k := stallKey(ns)
		if kinds["block-header-match-bad-body"] {
			k += "/bad-body-for-trusted-header-sent"
		}
		c.Violate("stalled", k, "with untrusted traffic (%v) the node did not reach the trusted peer's chain within %v: %s; last request %s", ks, settleBudget, why, lastSUTRequest(ns))
	}
	// every block of the node's chain was announced by the trusted peer
	lh := ns.Node.LastHeight(ns.ctx())
	for h := ns.Start.Height; h <= lh; h++ {
		hash, err := ns.Node.Hash(ns.ctx(), h)
		if err != nil {
			continue
		}
		if !r.announcedByTrusted[*hash] {
			c.Violate("foreign-block", "chain", "block %s at height %d of the node's chain was never on the trusted peer's best chain", shortHash(*hash), h)
		}
	}
	// nothing an untrusted peer sends keeps a transaction the trusted peer announces from the client
	delivered := map[bitcoin.Hash32]bool{}
	for _, cb := range ns.Rec.Log {
		if cb.Kind == "tx" {
			delivered[*cb.Tx.Tx.TxHash()] = true
		}
	}
	for _, id := range r.announcedReady {
		c.Probe("trusted_tx_judged")
		if !delivered[id] && converged {
			pushedBy := ""
			for _, pc := range r.advOrder {
				if r.adv[pc].pushedTxs[id] {
					pushedBy += fmt.Sprintf(" %s(verified=%v)", pc, r.adv[pc].verified)
				}
			}
			key := "no-untrusted-push"
			if pushedBy != "" {
				key = "body-pushed-by-untrusted"
			}
			c.Violate("suppressed", key, "relevant transaction %s was announced by the trusted peer while the node was in sync and never reached the handlers; untrusted connections that had pushed its body:%s", shortHash(id), pushedBy)
		}
	}
	forged := map[bitcoin.Hash32]bool{}
	for _, b := range r.forged {
		forged[b.Hash] = true
	}
	trustedTx := map[bitcoin.Hash32]bool{}
	for _, tx := range r.trustedTxs {
		trustedTx[*tx.TxHash()] = true
	}
	vouchedAt := map[bitcoin.Hash32]time.Duration{}
	for _, ev := range ns.SentLog {
		if !ev.Conn.P.Trusted {
			continue
		}
		at := consumedAt(ev.Conn, ev.EndOff)
		if at < 0 {
			continue
		}
		switch m := ev.Msg.(type) {
		case *wire.MsgInv:
			for _, iv := range m.InvList {
				if _, ok := vouchedAt[iv.Hash]; !ok {
					vouchedAt[iv.Hash] = at
				}
			}
		case *wire.MsgTx:
			if _, ok := vouchedAt[*m.TxHash()]; !ok {
				vouchedAt[*m.TxHash()] = at
			}
		}
	}
	for _, cb := range ns.Rec.Log {
		switch cb.Kind {
		case "headers":
			for _, h := range cb.Headers.Headers {
				if forged[*h.BlockHash()] || !r.announcedByTrusted[*h.BlockHash()] {
					c.Violate("foreign-block", "HandleHeaders", "HandleHeaders announced block %s which only untrusted peers ever sent", shortHash(*h.BlockHash()))
				}
			}
		case "tx":
			id := *cb.Tx.Tx.TxHash()
			if mp := cb.Tx.State.MerkleProof; mp != nil && !r.announcedByTrusted[*mp.BlockHeader.BlockHash()] {
				c.Violate("forged-confirmation", "HandleTx", "%s was delivered as confirmed in a block the trusted peer never announced", shortHash(id))
			}
			if cb.Tx.State.Safe && cb.Tx.State.MerkleProof == nil {
				if _, ok := vouchedAt[id]; !ok {
					c.Violate("safe-unvouched", "HandleTx", "%s was delivered safe although the trusted peer never announced or sent it", shortHash(id))
				}
			}
			c.Probe("tx_delivered")
			if !trustedTx[id] {
				c.Probe("untrusted_only_tx_delivered")
				// only a verified peer may have introduced it
				ok := false
				for _, pc := range r.advOrder {
					for _, ev := range pc.Sent {
						if hm, isH := ev.Msg.(*wire.MsgHeaders); isH && len(hm.Headers) > 0 {
							if first := ns.Tree.ByHash[*hm.Headers[0].BlockHash()]; first != nil && r.announcedByTrusted[first.Hash] {
								ok = true // sent headers starting at a known block (may have passed the check)
							}
						}
					}
				}
				if !ok {
					c.Violate("delivery-from-unverified", "HandleTx", "%s reached handlers although no untrusted connection had proved chain membership", shortHash(id))
				}
			}
		case "update":
			id := cb.Update.TxID
			if mp := cb.Update.State.MerkleProof; mp != nil && !r.announcedByTrusted[*mp.BlockHeader.BlockHash()] {
				c.Violate("forged-confirmation", "HandleTxUpdate", "%s was reported confirmed in a block the trusted peer never announced", shortHash(id))
			}
			if cb.Update.State.Safe && cb.Update.State.MerkleProof == nil {
				if at, ok := vouchedAt[id]; !ok || at > cb.At {
					c.Violate("safe-unvouched", "HandleTxUpdate", "%s was reported safe at t=%v although the trusted peer had not announced or sent it", shortHash(id), cb.At)
				}
			}
		}
	}
	// no request to a connection that has not proved chain membership: a headers message that is
	// internally linked, whose first header is a block of a trusted-announced branch and (judged
	// only in runs without reorganisations, where the node's tip only grows) within seven blocks
	// of the node's tip
	noReorg := true
	for _, ev := range r.cr.sc.events {
		if ev.kind == "reorg" || ev.kind == "flip" {
			noReorg = false
		}
	}
	tipLow := func(t time.Duration) int {
		h := -1
		for _, cb := range ns.Rec.Log {
			if cb.Kind == "headers" && cb.At < t { // strictly earlier instant: same-instant order is not known
				h = int(cb.Headers.StartHeight)
			}
		}
		return h
	}
	provedAt := func(pc *PeerConn) time.Duration {
		for _, ev := range pc.Sent {
			hm, ok := ev.Msg.(*wire.MsgHeaders)
			if !ok || len(hm.Headers) == 0 {
				continue
			}
			at := consumedAt(pc, ev.EndOff)
			if at < 0 {
				continue
			}
			first := ns.Tree.ByHash[*hm.Headers[0].BlockHash()]
			if first == nil || !r.announcedByTrusted[first.Hash] {
				continue
			}
			linked := true
			for i := 1; i < len(hm.Headers); i++ {
				if hm.Headers[i].PrevBlock != *hm.Headers[i-1].BlockHash() {
					linked = false
				}
			}
			if !linked {
				continue
			}
			if noReorg {
				if tl := tipLow(at); tl >= 0 && first.Height < tl-8 {
					continue // certainly too old
				}
			}
			return at
		}
		return -1
	}
	for _, ev := range ns.Received {
		if ev.Conn.P.Trusted {
			continue
		}
		if gd, ok := ev.Msg.(*wire.MsgGetData); ok {
			pa := provedAt(ev.Conn)
			if pa < 0 || pa > ev.At {
				c.Violate("listened-unverified", "getdata", "the node sent %s to %s at t=%v; that connection had not proved chain membership (proof consumed: %v)", msgBrief(gd), ev.Conn, ev.At, pa)
			}
			for _, iv := range gd.InvList {
				if iv.Type == wire.InvTypeBlock {
					c.Violate("listened-unverified", "getdata-block", "the node requested a block from untrusted connection %s", ev.Conn)
				}
			}
		}
	}
}

func init() {
	real := []string{"internal/spynode.Node + UntrustedNode (Run, monitorUntrustedNodes, all goroutines)", "internal/handlers (trusted and untrusted)", "internal/state", "internal/storage", "pkg/wire framing"}
	Register(&Check{Prop: "C12", Sub: "adversarial-untrusted", Weight: 1, Real: real, Stub: txStub,
		Req:  []string{"in_sync_reached", "untrusted_connected", "untrusted_verified", "tx_delivered"},
		Rule: "an honest trusted peer running a chain scenario (extensions, reorgs, flip-flops) and vouching for a few relevant transactions, plus 1-3 untrusted connections each sending a tape-generated adversarial sequence (unlinked / unknown / old / empty headers, unsolicited tx and inv incl. double spends, blocks matching the trusted tip's header with another body, forged blocks, addr floods, unknown commands, garbage bytes), about two thirds of them passing the chain check first; every run is non-trivial.",
		Run:  runC12})
}
