//go:build go1.26

package verifsim

import (
	"bytes"
	"context"
	"fmt"
	"io"
	"net"
	"time"

	"github.com/pkg/errors"

	"github.com/tokenized/config"
	"github.com/tokenized/pkg/bitcoin"
	"github.com/tokenized/spynode/pkg/client"
	"verif.local/simrt"
)

// ClientSim is engine E2: the real client.RemoteClient (Run, all its threads, every public call)
// in one bubble against a scripted spynode service over the simulated transport.
type ClientSim struct {
	c         *Ctx
	S         *simrt.Sched
	ServerKey bitcoin.Key
	ClientKey bitcoin.Key
	OtherKey  bitcoin.Key
	Cfg       *client.Config
	RC        *client.RemoteClient
	H1, H2    *ClientRecorder
	Svc       *Service
	Interrupt chan interface{}
	RunErr    error
	RunDone   bool
	RunDoneAt time.Duration
	LinkFor   func(n int) *Link
	DialFail  func(n int) string
	dials     int
}

const serviceAddr = "10.9.0.1:9000"

func fixedKey(tag string) bitcoin.Key {
	h := dsha([]byte("verif-key-" + tag))
	k, err := bitcoin.KeyFromNumber(h[:], bitcoin.MainNet)
	if err != nil {
		panic(err)
	}
	return k
}

func NewClientSim(c *Ctx, connType client.ConnectionType) *ClientSim {
	cs := &ClientSim{c: c, ServerKey: fixedKey("server"), ClientKey: fixedKey("client"), OtherKey: fixedKey("other")}
	cs.S = simrt.New(c.Sched)
	cs.S.Trace = c.Trace
	cfg := client.NewConfig(serviceAddr, cs.ServerKey.PublicKey(), cs.ClientKey, 100, connType)
	cfg.RetryDelay = config.NewDuration(500 * time.Millisecond)
	cfg.RetryError = config.NewDuration(10 * time.Minute)
	cs.Cfg = cfg
	cs.Svc = &Service{cs: cs, key: cs.ServerKey}
	simrt.DialHook = cs.dial
	return cs
}

func (cs *ClientSim) dial(network, addr string, timeout time.Duration) (net.Conn, error) {
	simrt.Yield()
	n := cs.dials
	cs.dials++
	mode := ""
	if cs.DialFail != nil {
		mode = cs.DialFail(n)
	}
	switch mode {
	case "refuse":
		simrt.Eventf("dial", "service refused")
		simrt.Sleep(time.Duration(1+cs.c.Scen.Choose(30)) * time.Millisecond)
		return nil, &dialError{"connection refused"}
	case "hang":
		simrt.Eventf("dial", "service dial hangs")
		d := timeout
		if d <= 0 {
			d = 75 * time.Second
		}
		simrt.Sleep(d)
		return nil, &dialError{"i/o timeout"}
	}
	link := &Link{BaseLatency: 2 * time.Millisecond, Jitter: 10 * time.Millisecond, Tape: cs.c.Scen}
	if cs.LinkFor != nil {
		link = cs.LinkFor(n)
	}
	simrt.Sleep(link.latency())
	clientSide, svcSide := NewConnPair(link, "client", "service")
	clientSide.KeepWrites = true
	simrt.Eventf("dial", "service connection #%d", len(cs.Svc.Conns))
	cs.Svc.accept(svcSide, clientSide)
	return clientSide, nil
}

// Start creates the client and runs it as a task.
func (cs *ClientSim) Start() {
	rc, err := client.NewRemoteClient(cs.Cfg)
	if err != nil {
		panic(err)
	}
	cs.RC = rc
	cs.H1 = &ClientRecorder{cs: cs, Name: "h1"}
	cs.H2 = &ClientRecorder{cs: cs, Name: "h2"}
	rc.RegisterHandler(cs.H1)
	rc.RegisterHandler(cs.H2)
	cs.Interrupt = make(chan interface{})
	simrt.Go("client.Run", func() {
		err := rc.Run(quietCtx(), cs.Interrupt)
		cs.RunErr = err
		cs.RunDone = true
		cs.RunDoneAt = cs.S.Now()
		simrt.Eventf("client-run-returned", "%v", err)
	})
}

// Shutdown interrupts the client and waits for Run to return.
func (cs *ClientSim) Shutdown(bound time.Duration) bool {
	if !cs.RunDone {
		close(cs.Interrupt)
	}
	deadline := cs.S.Now() + bound
	for cs.S.Now() < deadline && !cs.RunDone {
		simrt.Sleep(50 * time.Millisecond)
	}
	return cs.RunDone
}

// ---- recording handler --------------------------------------------------------------------------

type ClientCallback struct {
	At   time.Duration
	Seq  uint64
	Kind string // tx | update | headers | insync | accept | chaintip | other
	ID   uint64
	TxID bitcoin.Hash32
	Conn int // service connection count at that time
	Next uint64 // RemoteClient.NextMessageID() read inside the callback (tx and update, handler h1)
}

type ClientRecorder struct {
	cs   *ClientSim
	Name string
	Log  []ClientCallback
	last uint64 // last message id seen (like cmd/client's handler)
	// ReadyFrom: what the application passes to Ready when the service accepts:
	// "next" = RemoteClient.NextMessageID(), "last+1" = own bookkeeping, "none" = never calls Ready
	ReadyMode   string
	ReadyFirst  uint64 // persisted id used for the first Ready of a fresh client (0 = none)
	readyCalls  []uint64
	ReadyErrs   []error
	OnAccept    func()
	Slow        func() time.Duration
	Rewind      func() uint64 // ReadyMode "rewind": how far behind the declared id is
}

func (r *ClientRecorder) add(cb ClientCallback) {
	cb.At = r.cs.S.Now()
	cb.Seq = r.cs.S.Seq
	cb.Conn = len(r.cs.Svc.Conns)
	r.Log = append(r.Log, cb)
	if r.Slow != nil {
		if d := r.Slow(); d > 0 {
			simrt.Sleep(d)
		}
	}
	simrt.Yield()
}

func (r *ClientRecorder) HandleTx(ctx context.Context, tx *client.Tx) {
	simrt.Eventf("ccb-tx", "%s id=%d %s", r.Name, tx.ID, shortHash(*tx.Tx.TxHash()))
	r.last = tx.ID
	r.add(ClientCallback{Kind: "tx", ID: tx.ID, TxID: *tx.Tx.TxHash(), Next: r.nextNow()})
}

func (r *ClientRecorder) HandleTxUpdate(ctx context.Context, u *client.TxUpdate) {
	simrt.Eventf("ccb-update", "%s id=%d %s", r.Name, u.ID, shortHash(u.TxID))
	r.last = u.ID
	r.add(ClientCallback{Kind: "update", ID: u.ID, TxID: u.TxID, Next: r.nextNow()})
}

// nextNow is what an application that saves its resume point from inside the callback reads.
func (r *ClientRecorder) nextNow() uint64 {
	if r.Name != "h1" || r.cs.RC == nil {
		return 0
	}
	return r.cs.RC.NextMessageID()
}

func (r *ClientRecorder) HandleHeaders(ctx context.Context, h *client.Headers) {
	simrt.Eventf("ccb-headers", "%s start=%d n=%d", r.Name, h.StartHeight, len(h.Headers))
	r.add(ClientCallback{Kind: "headers", ID: uint64(h.StartHeight)})
}

func (r *ClientRecorder) HandleInSync(ctx context.Context) {
	simrt.Eventf("ccb-insync", "%s", r.Name)
	r.add(ClientCallback{Kind: "insync"})
}

func (r *ClientRecorder) HandleMessage(ctx context.Context, p client.MessagePayload) {
	switch p.(type) {
	case *client.AcceptRegister:
		simrt.Eventf("ccb-accept", "%s", r.Name)
		r.add(ClientCallback{Kind: "accept"})
		if r.Name != "h1" {
			return
		}
		if r.OnAccept != nil {
			r.OnAccept()
		}
		switch r.ReadyMode {
		case "none":
			return
		case "last+1":
			id := r.last + 1
			if len(r.readyCalls) == 0 && r.ReadyFirst != 0 {
				id = r.ReadyFirst
			}
			r.callReady(id)
		case "rewind":
			// an application whose durable resume point lags behind what it was handed: it declares
			// an id it has already seen
			id := r.last + 1
			if len(r.readyCalls) == 0 && r.ReadyFirst != 0 {
				id = r.ReadyFirst
			} else if r.Rewind != nil {
				if k := r.Rewind(); k < id {
					id -= k
				}
			}
			r.callReady(id)
		default:
			id := r.cs.RC.NextMessageID()
			if len(r.readyCalls) == 0 && r.ReadyFirst != 0 {
				id = r.ReadyFirst
			}
			r.callReady(id)
		}
	case *client.ChainTip:
		r.add(ClientCallback{Kind: "chaintip"})
	default:
		r.add(ClientCallback{Kind: "other"})
	}
}

func (r *ClientRecorder) callReady(id uint64) {
	r.readyCalls = append(r.readyCalls, id)
	simrt.Eventf("app-ready", "id=%d", id)
	err := r.cs.RC.Ready(quietCtx(), id)
	r.ReadyErrs = append(r.ReadyErrs, err)
}

var _ client.Handler = (*ClientRecorder)(nil)

// ---- service model ------------------------------------------------------------------------------

type SvcEvent struct {
	At            time.Duration
	Seq           uint64
	Msg           client.MessagePayload
	HandshakeDone bool // the connection's handshake had completed when the bytes arrived
}

type Service struct {
	cs    *ClientSim
	key   bitcoin.Key
	Conns []*SvcConn
	// AcceptMode decides how a Register is answered: valid | wrong-key | other-hash | bad-sig |
	// altered-counts | replay | none | reject
	AcceptMode func(sc *SvcConn) string
	// OnMessage is called for every message received after the Register.
	OnMessage func(sc *SvcConn, m client.MessagePayload)
	// OnReady is called when the client's Ready arrives (full connections).
	OnReady func(sc *SvcConn, nextID uint64)
	// BeforeAccept, if set, runs after the register was read and before the answer (if any) is
	// written: what a hostile service sends ahead of its accept.
	BeforeAccept func(sc *SvcConn, mode string)
	// AfterAccept runs right after the answer to the register was written.
	AfterAccept func(sc *SvcConn, mode string)
	lastValidAccept *client.AcceptRegister
}

type SvcConn struct {
	S           *Service
	C           *Conn
	ClientSide  *Conn
	ID          int
	Reg         *client.Register
	RegValid    bool
	RegProblem  string
	AcceptMode  string
	AcceptAt    time.Duration // when a VALID accept was sent (-1 = never)
	ReadyAt     time.Duration
	ReadyID     uint64
	Received    []SvcEvent
	SentLog     []SvcSent
	sentOff     uint64
	Dead        bool
	OpenedAt    time.Duration
}

type SvcSent struct {
	At     time.Duration
	Msg    client.MessagePayload
	EndOff uint64
}

func (sc *SvcConn) String() string { return fmt.Sprintf("svc#%d", sc.ID) }

// HandshakeDone: from the service's point of view the client may send requests now.
func (sc *SvcConn) HandshakeDone() bool {
	if sc.AcceptAt < 0 {
		return false
	}
	if sc.S.cs.Cfg.ConnectionType == client.ConnectionTypeFull {
		return sc.ReadyAt >= 0
	}
	return true
}

func (sc *SvcConn) Send(p client.MessagePayload) bool {
	if sc.Dead || sc.C.IsClosed() {
		return false
	}
	var buf bytes.Buffer
	m := client.Message{Payload: p}
	if err := m.Serialize(&buf); err != nil {
		panic(fmt.Sprintf("service model: serialize %T: %v", p, err))
	}
	// bookkeeping and write are one step for the scheduler: with several model tasks sending on
	// one connection the recorded offsets must be the order of the bytes on the stream
	ok := true
	simrt.NoPreempt(func() {
		sc.sentOff += uint64(buf.Len())
		sc.SentLog = append(sc.SentLog, SvcSent{At: sc.S.cs.S.Now(), Msg: p, EndOff: sc.sentOff})
		simrt.Eventf("svc>client", "%s %s", sc, client.NameForMessageType(p.Type()))
		if _, err := sc.C.Write(buf.Bytes()); err != nil {
			sc.Dead = true
			ok = false
		}
	})
	return ok
}

// SendRaw writes arbitrary bytes.
func (sc *SvcConn) SendRaw(b []byte) { sc.C.Write(b) }

func (s *Service) accept(svcSide, clientSide *Conn) {
	sc := &SvcConn{S: s, C: svcSide, ClientSide: clientSide, ID: len(s.Conns), AcceptAt: -1, ReadyAt: -1, OpenedAt: s.cs.S.Now()}
	s.Conns = append(s.Conns, sc)
	simrt.GoDaemon("service-reader:"+sc.String(), func() { s.reader(sc) })
}

func (s *Service) reader(sc *SvcConn) {
	for {
		m := &client.Message{}
		if err := m.Deserialize(sc.C); err != nil {
			sc.Dead = true
			sc.C.Close()
			simrt.Eventf("svc-conn-end", "%s %v", sc, err)
			return
		}
		ev := SvcEvent{At: s.cs.S.Now(), Seq: s.cs.S.Seq, Msg: m.Payload, HandshakeDone: sc.HandshakeDone()}
		sc.Received = append(sc.Received, ev)
		simrt.Eventf("client>svc", "%s %s", sc, client.NameForMessageType(m.Payload.Type()))
		switch p := m.Payload.(type) {
		case *client.Register:
			s.handleRegister(sc, p)
		case *client.Ready:
			if sc.ReadyAt < 0 {
				sc.ReadyAt = s.cs.S.Now()
				sc.ReadyID = p.NextMessageID
				if s.OnReady != nil {
					s.OnReady(sc, p.NextMessageID)
				}
			}
		case *client.Ping:
			sc.Send(&client.Pong{RequestTimeStamp: p.TimeStamp, TimeStamp: p.TimeStamp + 1})
		default:
			if s.OnMessage != nil {
				s.OnMessage(sc, m.Payload)
			}
		}
	}
}

func (s *Service) handleRegister(sc *SvcConn, reg *client.Register) {
	sc.Reg = reg
	// verify the client's signature against the configured client key
	sc.RegValid = true
	if !reg.Key.Equal(s.cs.ClientKey.PublicKey()) {
		sc.RegValid = false
		sc.RegProblem = "key is not the configured client key"
	} else if sh, err := refRegisterSigHash(reg); err != nil {
		sc.RegValid = false
		sc.RegProblem = "sig hash: " + err.Error()
	} else if !reg.Signature.Verify(*sh, reg.Key) {
		sc.RegValid = false
		sc.RegProblem = "signature does not verify"
	}
	mode := "valid"
	if s.AcceptMode != nil {
		mode = s.AcceptMode(sc)
	}
	sc.AcceptMode = mode
	if s.BeforeAccept != nil {
		s.BeforeAccept(sc, mode)
	}
	if mode == "none" {
		return
	}
	if mode == "reject" {
		sc.Send(&client.Reject{MessageType: client.MessageTypeRegister, Code: client.RejectCodeUnauthorized, Message: "not welcome"})
		return
	}
	acc := s.buildAccept(reg.Hash, mode)
	if acc == nil {
		return
	}
	if mode == "valid" {
		sc.AcceptAt = s.cs.S.Now()
		s.lastValidAccept = acc
	}
	sc.Send(acc)
	if s.AfterAccept != nil {
		s.AfterAccept(sc, mode)
	}
}

// buildAccept creates an AcceptRegister; for every mode except "valid" it is forged in one way.
func (s *Service) buildAccept(hash bitcoin.Hash32, mode string) *client.AcceptRegister {
	sess, err := bitcoin.NextKey(s.key, hash)
	if err != nil {
		return nil
	}
	// counts of a new client (all zero), equal counts, and unequal ones
	t := s.cs.c.Scen
	acc := &client.AcceptRegister{Key: sess.PublicKey(), PushDataCount: uint64(t.Choose(4)), MessageCount: uint64(t.Choose(9))}
	acc.UTXOCount = acc.PushDataCount
	if t.Bool(1, 2) {
		acc.UTXOCount = uint64(t.Choose(4))
	}
	signer := sess
	signHash := hash
	switch mode {
	case "wrong-key": // the long-term server key instead of the session key
		acc.Key = s.key.PublicKey()
		signer = s.key
	case "other-hash": // session key derived for another hash, consistently signed
		other := dsha(hash[:])
		k, err := bitcoin.NextKey(s.key, other)
		if err != nil {
			return nil
		}
		acc.Key = k.PublicKey()
		signer = k
		signHash = other
	case "bad-sig": // right key, signature by another key
		signer = s.cs.OtherKey
	case "replay":
		if s.lastValidAccept != nil {
			cp := *s.lastValidAccept
			return &cp
		}
		signer = s.cs.OtherKey
	}
	sh, err := refAcceptSigHash(acc, signHash)
	if err != nil {
		return nil
	}
	sig, err := signer.Sign(*sh)
	if err != nil {
		return nil
	}
	acc.Signature = sig
	if mode == "altered-counts" { // signature over other counts than the ones sent
		switch s.cs.c.Scen.Choose(3) {
		case 0:
			acc.MessageCount++
		case 1:
			acc.UTXOCount += 5000
		default:
			acc.PushDataCount++
		}
	}
	return acc
}

// refVarInt is the Bitcoin variable length integer, written here independently of the code under
// test.
func refVarInt(v uint64) []byte {
	switch {
	case v < 0xfd:
		return []byte{byte(v)}
	case v <= 0xffff:
		return []byte{0xfd, byte(v), byte(v >> 8)}
	case v <= 0xffffffff:
		return []byte{0xfe, byte(v), byte(v >> 8), byte(v >> 16), byte(v >> 24)}
	}
	out := []byte{0xff}
	for i := 0; i < 8; i++ {
		out = append(out, byte(v>>(8*i)))
	}
	return out
}

// refAcceptSigHash: what an accept register message's signature covers, written from the protocol
// description and not through the client's own SigHash: the session key, the three counts and the
// client's per-connection hash, double SHA-256.
func refAcceptSigHash(acc *client.AcceptRegister, h bitcoin.Hash32) (*bitcoin.Hash32, error) {
	var buf []byte
	buf = append(buf, acc.Key.Bytes()...)
	buf = append(buf, refVarInt(acc.PushDataCount)...)
	buf = append(buf, refVarInt(acc.UTXOCount)...)
	buf = append(buf, refVarInt(acc.MessageCount)...)
	buf = append(buf, h[:]...)
	out := dsha(buf)
	return &out, nil
}

// refRegisterSigHash: version, client key, connection hash, start block height (little endian),
// chain tip, connection type.
func refRegisterSigHash(reg *client.Register) (*bitcoin.Hash32, error) {
	var buf []byte
	buf = append(buf, reg.Version)
	buf = append(buf, reg.Key.Bytes()...)
	buf = append(buf, reg.Hash[:]...)
	buf = append(buf, byte(reg.StartBlockHeight), byte(reg.StartBlockHeight>>8), byte(reg.StartBlockHeight>>16), byte(reg.StartBlockHeight>>24))
	buf = append(buf, reg.ChainTip[:]...)
	buf = append(buf, byte(reg.ConnectionType))
	out := dsha(buf)
	return &out, nil
}

// WrittenMsg is a message found in the bytes the client wrote to a connection.
type WrittenMsg struct {
	At  time.Duration // time of the write that completed it
	Msg client.MessagePayload
}

// Written parses everything the client wrote on this connection, whether or not the service read it.
func (sc *SvcConn) Written() []WrittenMsg {
	var all []byte
	var ends []int
	var times []time.Duration
	for _, w := range sc.ClientSide.WriteLog {
		all = append(all, w.Data...)
		ends = append(ends, len(all))
		times = append(times, w.At)
	}
	var out []WrittenMsg
	r := bytes.NewReader(all)
	for r.Len() > 0 {
		m := &client.Message{}
		if err := m.Deserialize(r); err != nil {
			break // a partially written message at the end
		}
		pos := len(all) - r.Len()
		at := time.Duration(0)
		for i, e := range ends {
			if e >= pos {
				at = times[i]
				break
			}
		}
		out = append(out, WrittenMsg{At: at, Msg: m.Payload})
	}
	return out
}

// WrittenBytes parses the client's writes and reports how many bytes form whole messages and, if
// parsing stopped for another reason than a truncated tail, why.
func (sc *SvcConn) WrittenBytes() (int, string) {
	var all []byte
	for _, w := range sc.ClientSide.WriteLog {
		all = append(all, w.Data...)
	}
	r := bytes.NewReader(all)
	good := 0
	for r.Len() > 0 {
		m := &client.Message{}
		if err := m.Deserialize(r); err != nil {
			cause := errors.Cause(err)
			if cause == io.EOF || cause == io.ErrUnexpectedEOF {
				return good, "" // a message cut short by a connection end
			}
			return good, err.Error()
		}
		good = len(all) - r.Len()
	}
	return good, ""
}
