//go:build go1.26

package verifsim

import (
	"fmt"
	"time"

	"github.com/tokenized/pkg/bitcoin"
	"github.com/tokenized/pkg/wire"
	"github.com/tokenized/spynode/pkg/client"
	"verif.local/simrt"
)

type clientMerkleProof = client.MerkleProof

// ---- C04: merkle proofs for every block shape; bad-merkle bodies are rejected -------------------

func c04scenario(c *Ctx, w *TxWorld) (*txScenario, string, string) {
	t := c.Scen
	sc := &txScenario{safeDelay: 2000}
	sc.preemptDen = uint32(pickFrom(t, 0, 2, 4, 16))
	sc.latBase = time.Duration(pickFrom(t, 1, 5, 20)) * time.Millisecond
	sc.latJitter = time.Duration(pickFrom(t, 0, 5, 30)) * time.Millisecond
	// total transactions in the block including the coinbase
	counts := []int{1, 2, 3, 4, 5, 6, 7, 8, 9, 10, 11, 12, 13, 14, 15, 16, 17, 31, 32, 33}
	n := counts[int(c.Run/2)%len(counts)] // every count is visited systematically
	if c.Tier == "thorough" && t.Bool(1, 4) {
		n = 1 + int(t.Choose(70))
	}
	pattern := pickStr(t, "none", "first", "last", "all", "random", "odd-leaf", "two-ends")
	extra := n - 1
	for i := 0; i < extra; i++ {
		rel := false
		switch pattern {
		case "first":
			rel = i == 0
		case "last":
			rel = i == extra-1
		case "all":
			rel = true
		case "random":
			rel = t.Bool(1, 2)
		case "odd-leaf":
			// the last leaf of an odd-sized level is the one that gets paired with itself
			rel = i == extra-1 || (n%2 == 1 && i == extra-1) || i == (extra|1)-1
		case "two-ends":
			rel = i == 0 || i == extra-1
		}
		ts := &txSpec{idx: i, inBlock: 0, holders: map[string]bool{"trusted": true}, relevant: rel}
		ts.spends = []wire.OutPoint{w.Fund(uint64(5000 + i))}
		var key []byte
		if rel {
			key = subKey
		}
		ts.tx = w.NewTx(ts.spends, key, 1+int(t.Choose(2)), i)
		ts.id = *ts.tx.TxHash()
		if t.Bool(1, 3) {
			// seen unconfirmed before the block
			ts.deliveries = append(ts.deliveries, txDelivery{at: time.Duration(200+t.Choose(1500)) * time.Millisecond, src: "trusted", kind: pickStr(t, "tx", "inv")})
		}
		sc.txs = append(sc.txs, ts)
	}
	blk := blockSpec{at: 2500 * time.Millisecond}
	for i := range sc.txs {
		blk.txs = append(blk.txs, i)
	}
	sc.blocks = []blockSpec{blk}
	corrupt := ""
	if t.Bool(1, 3) && n >= 1 {
		corrupt = pickStr(t, "tx-added", "tx-dropped", "tx-swapped", "byte-altered", "last-duplicated")
	}
	sc.knobs = fmt.Sprintf("blocktxs=%d pattern=%s corrupt=%q", n, pattern, corrupt)
	sc.horizon = 6 * time.Second
	return sc, pattern, corrupt
}

// corruptBody returns a body that differs from the honest one under an unchanged header.
func corruptBody(kind string, honest []*wire.MsgTx, w *TxWorld, t *simrt.Tape) []*wire.MsgTx {
	out := append([]*wire.MsgTx(nil), honest...)
	switch kind {
	case "tx-added":
		x := w.NewTx([]wire.OutPoint{w.Fund(77)}, subKey, 1, 9999)
		pos := 1 + int(t.Choose(uint32(len(out))))
		out = append(out[:pos], append([]*wire.MsgTx{x}, out[pos:]...)...)
	case "tx-dropped":
		if len(out) < 2 {
			return nil
		}
		pos := 1 + int(t.Choose(uint32(len(out)-1)))
		out = append(out[:pos], out[pos+1:]...)
	case "tx-swapped":
		if len(out) < 3 {
			return nil
		}
		i := 1 + int(t.Choose(uint32(len(out)-2)))
		out[i], out[i+1] = out[i+1], out[i]
	case "byte-altered":
		pos := int(t.Choose(uint32(len(out))))
		cp := out[pos].Copy()
		cp.LockTime ^= 1
		out[pos] = &cp
	case "last-duplicated":
		out = append(out, out[len(out)-1])
	}
	return out
}

func runC04(c *Ctx) {
	ns := NewNodeSim(c)
	sc, _, corrupt := c04scenario(c, ns.TxW)
	tr := newTxRun(c, sc, ns)
	c.Res.Summary = sc.String()
	var bad *WBlock
	malleable := false
	tr.onMine = func(b int, blk *WBlock) {
		if corrupt == "" {
			return
		}
		body := corruptBody(corrupt, blk.Txs, ns.TxW, c.Scen)
		if body == nil {
			return
		}
		ids := make([]bitcoin.Hash32, len(body))
		for i, tx := range body {
			ids[i] = *tx.TxHash()
		}
		if MerkleRootOf(ids) == blk.Header.MerkleRoot {
			// the classic duplicated-last-leaf malleability: the body still hashes to the root,
			// so the statement's rejection clause does not apply to it
			malleable = true
			c.Probe("malleable_variant_skipped")
			return
		}
		blk.BadBody = body
		if ns.Trusted.BadBody == nil {
			ns.Trusted.BadBody = map[bitcoin.Hash32]bool{}
		}
		ns.Trusted.BadBody[blk.Hash] = true
		bad = blk
		c.FaultFired("F-peer-byz")
	}
	if corrupt != "" {
		c.FaultConfigured("F-peer-byz")
	}
	done := false
	simrt.Go("driver", func() {
		defer func() { done = true; tr.done = true }()
		tr.drive()
		if c.Res.Inconclusive != "" {
			return
		}
		c04eval(c, tr, bad, malleable, corrupt)
		c.Res.Nontrivial = true
	})
	ns.S.Run(func() bool { return done })
	if !done && len(c.Res.Violations) == 0 && c.Res.Inconclusive == "" && !ns.S.Zeno && !ns.S.StepCap {
		c.Res.Inconclusive = "driver-stuck"
	}
	reportPanics(c, ns)
}

func c04eval(c *Ctx, tr *txRun, bad *WBlock, malleable bool, corrupt string) {
	ns := tr.ns
	simrt.NoPreempt(func() {
		e := newTxEval(tr)
		if bad == nil {
			e.checkProofs(c)
			e.checkDelivery(c)
			if !malleable {
				c.Probe("good_block_checked")
			}
			// agreement of the repository's own proof type with the independent verifier,
			// including tampered variants
			for _, cb := range ns.Rec.Log {
				var txid bitcoin.Hash32
				switch cb.Kind {
				case "tx":
					txid = *cb.Tx.Tx.TxHash()
					if mp := cb.Tx.State.MerkleProof; mp != nil {
						c04agree(c, txid, mp.Copy())
					}
				case "update":
					txid = cb.Update.TxID
					if mp := cb.Update.State.MerkleProof; mp != nil {
						c04agree(c, txid, mp.Copy())
					}
				}
			}
		} else {
			// corrupted body: the block must not become part of the chain and nothing of it
			// may be delivered
			c.Probe("bad_body_served")
			if got, ok := ns.Node.VerifBlocks().Height(&bad.Hash); ok {
				c.Violate("bad-merkle-accepted", "corruption="+corrupt, "block %s was served with a body that does not hash to its merkle root (%s) and is in the node's chain at height %d", bad, corrupt, got)
			}
			for _, cb := range ns.Rec.Log {
				switch cb.Kind {
				case "headers":
					for _, h := range cb.Headers.Headers {
						if *h.BlockHash() == bad.Hash {
							c.Violate("bad-merkle-announced", "corruption="+corrupt, "HandleHeaders was invoked for block %s whose body does not hash to its merkle root (%s)", bad, corrupt)
						}
					}
				case "tx":
					if mp := cb.Tx.State.MerkleProof; mp != nil && *mp.BlockHeader.BlockHash() == bad.Hash {
						c.Violate("bad-merkle-delivered", "HandleTx/corruption="+corrupt, "a transaction of the bad-merkle block %s was delivered as confirmed", bad)
					}
				case "update":
					if mp := cb.Update.State.MerkleProof; mp != nil && *mp.BlockHeader.BlockHash() == bad.Hash {
						c.Violate("bad-merkle-delivered", "HandleTxUpdate/corruption="+corrupt, "a transaction of the bad-merkle block %s was reported confirmed", bad)
					}
				}
			}
			// transactions only present in the corrupted body must never be delivered
			inHonest := map[bitcoin.Hash32]bool{}
			for _, tx := range bad.Txs {
				inHonest[*tx.TxHash()] = true
			}
			for _, tx := range bad.BadBody {
				id := *tx.TxHash()
				if inHonest[id] {
					continue
				}
				for _, cb := range ns.Rec.Log {
					if cb.Kind == "tx" && *cb.Tx.Tx.TxHash() == id {
						c.Violate("bad-merkle-delivered", "HandleTx/foreign-tx/corruption="+corrupt, "transaction %s exists only in the corrupted body of %s and was delivered", shortHash(id), bad)
					}
				}
			}
		}
	})
}

func init() {
	Register(&Check{Prop: "C04", Sub: "block-shapes", Weight: 1, Real: txReal, Stub: txStub,
		Req:  []string{"in_sync_reached", "proof_checked", "good_block_checked", "bad_body_served"},
		Rule: "block transaction count enumerated over 1..17,31,32,33 by run index (random up to 70 in thorough), relevance pattern (none/first/last/all/random/odd leaf/two ends), seen-before subset, optional body corruption (added/dropped/swapped/altered/last duplicated) and schedule from the tape; every run is non-trivial.",
		Run:  runC04})
}

// c04agree cross-checks the dependency's proof verification against the independent verifier on
// the delivered proof and on tampered variants of it.
func c04agree(c *Ctx, txid bitcoin.Hash32, mp clientMerkleProof) {
	type variant struct {
		name string
		id   bitcoin.Hash32
		mp   clientMerkleProof
	}
	vs := []variant{{"as-delivered", txid, mp}}
	wrong := txid
	wrong[5] ^= 0x40
	vs = append(vs, variant{"wrong-txid", wrong, mp})
	if len(mp.Path) > 0 {
		alt := mp.Copy()
		alt.Path[len(alt.Path)/2][7] ^= 1
		vs = append(vs, variant{"path-hash-altered", txid, alt})
		sh := mp.Copy()
		sh.Index ^= 1
		vs = append(vs, variant{"index-flipped", txid, sh})
	}
	for _, v := range vs {
		_, mine := verifyProof(v.id, &v.mp)
		theirs := v.mp.ConvertToMerkleProof(v.id).Verify() == nil
		if mine != theirs {
			c.Violate("verifier-disagree", "variant="+v.name, "independent verifier says %v, the repository's proof type says %v for variant %s (index %d, path %d, dup %v)", mine, theirs, v.name, v.mp.Index, len(v.mp.Path), v.mp.DuplicatedIndexes)
		}
		if v.name != "as-delivered" && mine {
			c.Violate("tampered-accepted", "variant="+v.name, "a tampered proof (%s) still verifies", v.name)
		}
	}
}
