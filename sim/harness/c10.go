//go:build go1.26

package verifsim

import (
	"fmt"
	"strings"
		"time"

	"github.com/tokenized/pkg/bitcoin"
	"github.com/tokenized/spynode/internal/storage"
	"verif.local/simrt"
)

// ---- C10: a crash at any storage write leaves a chain store the node can resume from -----------

// loadedChainProblem loads the block store of an image the way a starting node does and checks
// linkage and single-branch membership. Returns "" or clause, msg.
func loadedChainProblem(ns *NodeSim, img *SimDisk, announced map[bitcoin.Hash32]bool) (string, string) {
	ctx := quietCtx()
	repo := storage.NewBlockRepository(ns.Cfg, img)
	if err := repo.Load(ctx); err != nil {
		return "crash-load-error", fmt.Sprintf("block store does not load: %v", err)
	}
	if err := storage.NewTxRepository(img).Load(ctx); err != nil {
		return "crash-load-error", fmt.Sprintf("unconfirmed set does not load: %v", err)
	}
	if err := storage.NewPeerRepository(img).Load(ctx); err != nil {
		return "crash-load-error", fmt.Sprintf("peer list does not load: %v", err)
	}
	lh := repo.LastHeight()
	tipHash, err := repo.Hash(ctx, lh)
	if err != nil {
		return "crash-load-error", fmt.Sprintf("Hash(tip=%d) fails after load: %v", lh, err)
	}
	tip := ns.Tree.ByHash[*tipHash]
	if tip == nil {
		return "crash-unlinked", fmt.Sprintf("loaded tip %s at height %d is not a block of the tree", shortHash(*tipHash), lh)
	}
	if tip.Height != lh {
		return "crash-unlinked", fmt.Sprintf("loaded tip %s claims height %d, it is block %s", shortHash(*tipHash), lh, tip)
	}
	chain := Chain(tip)
	for h := 0; h <= lh; h++ {
		hdr, err := repo.Header(ctx, h)
		if err != nil {
			return "crash-load-error", fmt.Sprintf("Header(%d) fails after load: %v", h, err)
		}
		if *hdr.BlockHash() != chain[h].Hash {
			return "crash-mixed", fmt.Sprintf("loaded chain (tip %s) has at height %d block %s which is not an ancestor of its tip: a mixture of branches", tip, h, shortHash(*hdr.BlockHash()))
		}
		if h > 0 && hdr.PrevBlock != chain[h-1].Hash {
			return "crash-unlinked", fmt.Sprintf("loaded header at height %d does not link to height %d", h, h-1)
		}
		if hgt, ok := repo.Height(hdr.BlockHash()); !ok || hgt != h {
			return "crash-unlinked", fmt.Sprintf("loaded store: Height(Hash(%d)) = %d,%v", h, hgt, ok)
		}
	}
	if !announced[tip.Hash] {
		return "crash-mixed", fmt.Sprintf("loaded tip %s was never on the trusted peer's best chain", tip)
	}
	return "", ""
}

func mutationClass(m Mutation) string {
	k := m.Key
	switch {
	case strings.HasPrefix(k, "spynode/blocks/"):
		k = "blocks-file"
	case strings.HasPrefix(k, "spynode/txs/state"):
		k = "tx-state"
	case k == "spynode/txs/unconfirmed":
		k = "unconfirmed"
	case strings.HasPrefix(k, "spynode/txs/"):
		k = "block-txids"
	case strings.HasPrefix(k, "spynode/reorgs"):
		k = "reorg-record"
	case strings.HasPrefix(k, "spynode/peers"):
		k = "peers"
	}
	return m.Op + ":" + k
}

// c10scenario runs a chain scenario to completion (incl. a clean stop) and returns the run.
func c10scenario(c *Ctx, failAt int) (*chainRun, map[bitcoin.Hash32]bool, *SimDisk, bool) {
	sc := genChainScenario(c, false)
	sc.startFound = true
	if c.Scen.Bool(1, 3) {
		// make file roll-over and reorganisations across the 1000-header boundary likely
		sc.pre = pickFrom(c.Scen, 990, 995, 997, 998, 999)
		sc.initLen = pickFrom(c.Scen, 2, 4, 8, 12)
	}
	cr := newChainRun(c, sc)
	ns := cr.ns
	ns.Disk.RemoveMissingErr = c.Scen.Bool(1, 2)
	ns.SubData = [][]byte{subKey}
	initial := ns.Disk.Clone()
	announced := map[bitcoin.Hash32]bool{}
	note := func() {
		for b := ns.Trusted.Best; b != nil && !announced[b.Hash]; b = b.Parent {
			announced[b.Hash] = true
		}
	}
	if failAt >= 0 {
		ns.Disk.FailOp = func(n int, kind, key string) error {
			if n == failAt {
				c.FaultFired("F-disk-err")
				simrt.Eventf("fault", "disk op #%d %s %s fails", n, kind, key)
				ns.failedOp = kind + ":" + mutationClass(Mutation{Op: kind, Key: key})[len(kind)+1:]
				return ErrInjected
			}
			return nil
		}
	}
	done := false
	stopped := false
	simrt.Go("driver", func() {
		defer func() { done = true }()
		note()
		ns.StartNode()
		for _, ev := range sc.events {
			simrt.Sleep(ev.after)
			cr.apply(ev)
			note()
		}
		if failAt < 0 {
			ok, _ := cr.settle()
			if !ok {
				return // C01's business; no crash images from a run that did not converge
			}
			stopped = ns.StopNode(10 * time.Minute)
		}
	})
	ns.S.Run(func() bool { return done })
	return cr, announced, initial, stopped
}

func runC10crash(c *Ctx) {
	cr, announced, initial, stopped := c10scenario(c, -1)
	ns := cr.ns
	c.Res.Summary = "crash-points: " + cr.sc.String()
	if !stopped {
		c.Res.Inconclusive = "base-run-did-not-finish"
		if ns.S.Zeno || ns.S.StepCap {
			c.Res.Inconclusive = ""
		}
		return
	}
	log := ns.Disk.Log
	c.ProbeN("mutations", len(log))
	// which prefixes
	var idx []int
	maxPrefixes := 60
	if c.Tier == "thorough" {
		maxPrefixes = 100000
	}
	if len(log) <= maxPrefixes {
		for i := 0; i <= len(log); i++ {
			idx = append(idx, i)
		}
	} else {
		pick := map[int]bool{0: true, len(log): true}
		for i, m := range log {
			if m.Op == "remove" || strings.HasPrefix(m.Key, "spynode/reorgs") {
				for d := -2; d <= 2; d++ {
					if i+d >= 0 && i+d <= len(log) {
						pick[i+d] = true
					}
				}
			}
		}
		for len(pick) < maxPrefixes {
			pick[int(c.Scen.Choose(uint32(len(log)+1)))] = true
		}
		for i := 0; i <= len(log); i++ {
			if pick[i] {
				idx = append(idx, i)
			}
		}
	}
	for _, m := range log {
		c.Probe("mutation_" + mutationClass(m))
	}
	done := false
	simrt.Go("crash-enumerator", func() {
		defer func() { done = true }()
		for _, i := range idx {
			img := ImageAt(initial, log, i)
			img.RemoveMissingErr = ns.Disk.RemoveMissingErr
			after := "initial"
			if i > 0 {
				after = mutationClass(log[i-1])
			}
			c.NoteCase(len(log) > 2, fmt.Sprintf("%s|crash-after-%d", c.Res.Summary, i))
			var clause, msg string
			simrt.NoPreempt(func() { clause, msg = loadedChainProblem(ns, img, announced) })
			if clause != "" {
				c.Violate(clause, "after="+after, "crash after storage mutation %d of %d (%s): %s", i, len(log), after, msg)
				continue
			}
			// a new node on the surviving image converges again
			ns.Disk = img
			ns.Rec, ns.Rec2 = nil, nil
			ns.Touch()
			ns.StartNode()
			ok, why := cr.settle()
			if !ok {
				c.Violate("crash-not-resumable", "after="+after, "a node started on the image after storage mutation %d of %d (%s) does not converge: %s (run returned=%v err=%v)", i, len(log), after, why, ns.RunDone, ns.RunErr)
			}
			if !ns.StopNode(10 * time.Minute) {
				c.Violate("stop-hang", "crash-restart", "Stop did not complete")
				return
			}
			c.Probe("crash_points_checked")
		}
	})
	ns.S.Run(func() bool { return done })
	c.Res.Nontrivial = len(log) > 2
	c.Res.Exhaustive = len(idx) == len(log)+1
	reportPanics(c, ns)
}

func runC10fail(c *Ctx) {
	// which operation fails: an index drawn over a range that covers the operation counts these
	// scenarios produce (a draw beyond the run's operations means no fault fired: not counted as
	// non-trivial)
	ops := pickFrom(c.Scen, 20, 40, 80, 160)
	j := int(c.Scen.Choose(uint32(ops)))
	c.FaultConfigured("F-disk-err")
	cr, announced, _, _ := c10scenario(c, j)
	ns := cr.ns
	c.Res.Summary = fmt.Sprintf("op #%d of ~%d fails: %s", j, ops, cr.sc.String())
	done := false
	simrt.Go("driver2", func() {
		defer func() { done = true }()
		// either outcome is allowed, so do not wait the full convergence budget before restarting
		ok, why := cr.settleWithin(90 * time.Second)
		if ok {
			c.Probe("survived_without_restart")
		} else {
			// recover on restart?
			c.Probe("needed_restart")
			if !ns.RunDone {
				if !ns.StopNode(10 * time.Minute) {
					c.Violate("stop-hang", "after-disk-error", "Stop did not complete after an injected storage error")
					return
				}
			}
			var clause, msg string
			simrt.NoPreempt(func() { clause, msg = loadedChainProblem(ns, ns.Disk, announced) })
			if clause != "" {
				c.Violate("error-"+clause, "op="+ns.failedOp, "after storage operation #%d (%s) returned an error and the node was restarted: %s", j, ns.failedOp, msg)
				return
			}
			ns.Disk.FailOp = nil
			ns.Touch()
			ns.StartNode()
			ok2, why2 := cr.settle()
			if !ok2 {
				c.Violate("error-not-recovered", "op="+ns.failedOp, "storage operation #%d (%s) returned an error; the node neither converged (%s) nor did so after a restart (%s)", j, ns.failedOp, why, why2)
			}
		}
		// in-memory chain consistent (the harness's own reads must not trip the injected fault)
		ns.Disk.FailOp = nil
		simrt.NoPreempt(func() {
			blocks := ns.Node.VerifBlocks()
			ctx := quietCtx()
			for h := 1; h <= blocks.LastHeight(); h++ {
				hdr, err := blocks.Header(ctx, h)
				prev, err2 := blocks.Hash(ctx, h-1)
				if err != nil || err2 != nil || hdr.PrevBlock != *prev {
					c.Violate("error-unlinked", "op="+ns.failedOp, "after the injected error the in-memory chain is not linked at height %d", h)
					break
				}
			}
		})
		c.Res.Nontrivial = ns.failedOp != ""
	})
	ns.S.Run(func() bool { return done })
	reportPanics(c, ns)
}

func init() {
	real := []string{"internal/spynode.Node (Run, load, Stop)", "internal/handlers (headers incl. reorg path)", "internal/storage (BlockRepository, TxRepository, ReorgRepository, PeerRepository)", "internal/state"}
	stub := append([]string{"disk: simdisk with mutation log, crash images = initial image + first i mutations, single-operation error injection"}, txStub...)
	Register(&Check{Prop: "C10", Sub: "crash-points", Weight: 2, Real: real, Stub: stub,
		Req:  []string{"crash_points_checked", "mutation_write:blocks-file"},
		Rule: "a sync/reorg/shutdown scenario is run to completion with the storage mutation log recorded; then for every prefix of the log (quick: at most 60 prefixes, all around deletes and reorg records; thorough: all) the image is loaded the way a starting node does, checked for linkage and single-branch membership, and a new node is started on it and must converge. evaluations = crash images checked; non-trivial = more than two mutations in the scenario.",
		Run:  runC10crash})
	Register(&Check{Prop: "C10", Sub: "single-op-failure", Weight: 1, Real: real, Stub: stub,
		Rule: "the same scenario family with one storage operation (read, write or delete; index drawn from the tape over the scenario's operation count) returning an error: the node must converge anyway or after a clean restart, with a linked chain in memory and on disk.",
		Run:  runC10fail})
}
