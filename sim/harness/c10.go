//go:build go1.26

package verifsim

import (
	"sort"
	"fmt"
	"strings"
		"time"

	"github.com/tokenized/pkg/bitcoin"
	"github.com/tokenized/pkg/wire"
	"github.com/tokenized/spynode/internal/platform/config"
	"github.com/tokenized/spynode/internal/storage"
	"verif.local/simrt"
)

// ---- C10: a crash at any storage write leaves a chain store the node can resume from -----------

// loadedChainProblem loads the block store of an image the way a starting node does and checks
// linkage and single-branch membership. Returns "" or clause, msg.
func loadedChainProblem(ns *NodeSim, img *SimDisk, announced map[bitcoin.Hash32]bool) (string, string) {
	ctx := quietCtx()
	repo := storage.NewBlockRepository(ns.Cfg, img)
	if err := repo.Load(ctx); err != nil {
		return "crash-load-error", fmt.Sprintf("block store does not load: %v", err)
	}
	if err := storage.NewTxRepository(img).Load(ctx); err != nil {
		return "crash-load-error", fmt.Sprintf("unconfirmed set does not load: %v", err)
	}
	if err := storage.NewPeerRepository(img).Load(ctx); err != nil {
		return "crash-load-error", fmt.Sprintf("peer list does not load: %v", err)
	}
	lh := repo.LastHeight()
	tipHash, err := repo.Hash(ctx, lh)
	if err != nil {
		return "crash-load-error", fmt.Sprintf("Hash(tip=%d) fails after load: %v", lh, err)
	}
	tip := ns.Tree.ByHash[*tipHash]
	if tip == nil {
		return "crash-unlinked", fmt.Sprintf("loaded tip %s at height %d is not a block of the tree", shortHash(*tipHash), lh)
	}
	if tip.Height != lh {
		return "crash-unlinked", fmt.Sprintf("loaded tip %s claims height %d, it is block %s", shortHash(*tipHash), lh, tip)
	}
	chain := Chain(tip)
	for h := 0; h <= lh; h++ {
		hdr, err := repo.Header(ctx, h)
		if err != nil {
			return "crash-load-error", fmt.Sprintf("Header(%d) fails after load: %v", h, err)
		}
		if *hdr.BlockHash() != chain[h].Hash {
			return "crash-mixed", fmt.Sprintf("loaded chain (tip %s) has at height %d block %s which is not an ancestor of its tip: a mixture of branches", tip, h, shortHash(*hdr.BlockHash()))
		}
		if h > 0 && hdr.PrevBlock != chain[h-1].Hash {
			return "crash-unlinked", fmt.Sprintf("loaded header at height %d does not link to height %d", h, h-1)
		}
		if hgt, ok := repo.Height(hdr.BlockHash()); !ok || hgt != h {
			return "crash-unlinked", fmt.Sprintf("loaded store: Height(Hash(%d)) = %d,%v", h, hgt, ok)
		}
	}
	if !announced[tip.Hash] {
		return "crash-mixed", fmt.Sprintf("loaded tip %s was never on the trusted peer's best chain", tip)
	}
	return "", ""
}

func mutationClass(m Mutation) string {
	k := m.Key
	switch {
	case strings.HasPrefix(k, "spynode/blocks/"):
		k = "blocks-file"
	case strings.HasPrefix(k, "spynode/txs/state"):
		k = "tx-state"
	case k == "spynode/txs/unconfirmed":
		k = "unconfirmed"
	case strings.HasPrefix(k, "spynode/txs/"):
		k = "block-txids"
	case strings.HasPrefix(k, "spynode/reorgs"):
		k = "reorg-record"
	case strings.HasPrefix(k, "spynode/peers"):
		k = "peers"
	}
	return m.Op + ":" + k
}

// c10scenario runs a chain scenario to completion (incl. a clean stop) and returns the run.
// c10failClass: when non-empty, the failing operation is the failNth-th (0-based) operation of that
// class (e.g. "write:blocks-file") instead of the failAt-th operation overall.
type c10fail struct {
	at    int
	class string
	nth   int
}

func c10scenario(c *Ctx, failAt int) (*chainRun, map[bitcoin.Hash32]bool, *SimDisk, bool) {
	return c10scenarioF(c, c10fail{at: failAt})
}

func c10scenarioF(c *Ctx, f c10fail) (*chainRun, map[bitcoin.Hash32]bool, *SimDisk, bool) {
	failAt := f.at
	forceBoundary := strings.HasSuffix(f.class, ":blocks-file") && c.Scen.Bool(2, 3)
	sc := genChainScenario(c, false)
	sc.startFound = true
	if c.Scen.Bool(1, 3) || forceBoundary {
		// make file roll-over and reorganisations across the 1000-header boundary likely
		sc.pre = pickFrom(c.Scen, 990, 995, 997, 998, 999, 1001, 1003) // beyond 1000: the roll-over happens during header-only sync
		sc.initLen = pickFrom(c.Scen, 2, 4, 8, 12)
		if c.Scen.Bool(1, 2) && sc.pre < 999 {
			// cross the boundary while still catching up (blocks are then added without a save per
			// block, so the save of the full file at the roll-over is the only copy)
			sc.initLen = 1000 - sc.pre + pickFrom(c.Scen, 1, 2, 4, 8)
		}
	}
	cr := newChainRun(c, sc)
	ns := cr.ns
	ns.Disk.RemoveMissingErr = c.Scen.Bool(1, 2)
	ns.SubData = [][]byte{subKey}
	initial := ns.Disk.Clone()
	announced := map[bitcoin.Hash32]bool{}
	note := func() {
		for b := ns.Trusted.Best; b != nil && !announced[b.Hash]; b = b.Parent {
			announced[b.Hash] = true
		}
	}
	if failAt >= 0 || f.class != "" {
		seen := 0
		fired := false
		ns.Disk.FailOp = func(n int, kind, key string) error {
			hit := n == failAt
			if f.class != "" {
				hit = false
				if !fired && mutationClass(Mutation{Op: kind, Key: key}) == f.class {
					hit = seen == f.nth
					seen++
				}
			}
			if hit {
				fired = true
				c.FaultFired("F-disk-err")
				simrt.Eventf("fault", "disk op #%d %s %s fails", n, kind, key)
				ns.failedOp = kind + ":" + mutationClass(Mutation{Op: kind, Key: key})[len(kind)+1:]
				return ErrInjected
			}
			return nil
		}
	}
	done := false
	stopped := false
	simrt.Go("driver", func() {
		defer func() { done = true }()
		note()
		ns.StartNode()
		for _, ev := range sc.events {
			simrt.Sleep(ev.after)
			cr.apply(ev)
			note()
		}
		if failAt < 0 && f.class == "" {
			ok, _ := cr.settle()
			if !ok {
				return // C01's business; no crash images from a run that did not converge
			}
			stopped = ns.StopNode(10 * time.Minute)
		}
	})
	ns.S.Run(func() bool { return done })
	return cr, announced, initial, stopped
}

func runC10crash(c *Ctx) {
	cr, announced, initial, stopped := c10scenario(c, -1)
	ns := cr.ns
	c.Res.Summary = "crash-points: " + cr.sc.String()
	if !stopped {
		c.Res.Inconclusive = "base-run-did-not-finish"
		if ns.S.Zeno || ns.S.StepCap {
			c.Res.Inconclusive = ""
		}
		return
	}
	log := ns.Disk.Log
	c.ProbeN("mutations", len(log))
	// which prefixes
	var idx []int
	maxPrefixes := 60
	if c.Tier == "thorough" {
		maxPrefixes = 100000
	}
	if len(log) <= maxPrefixes {
		for i := 0; i <= len(log); i++ {
			idx = append(idx, i)
		}
	} else {
		pick := map[int]bool{0: true, len(log): true}
		for i, m := range log {
			if m.Op == "remove" || strings.HasPrefix(m.Key, "spynode/reorgs") {
				for d := -2; d <= 2; d++ {
					if i+d >= 0 && i+d <= len(log) {
						pick[i+d] = true
					}
				}
			}
		}
		for len(pick) < maxPrefixes {
			pick[int(c.Scen.Choose(uint32(len(log)+1)))] = true
		}
		for i := 0; i <= len(log); i++ {
			if pick[i] {
				idx = append(idx, i)
			}
		}
	}
	for _, m := range log {
		c.Probe("mutation_" + mutationClass(m))
	}
	done := false
	simrt.Go("crash-enumerator", func() {
		defer func() { done = true }()
		for _, i := range idx {
			img := ImageAt(initial, log, i)
			img.RemoveMissingErr = ns.Disk.RemoveMissingErr
			after := "initial"
			if i > 0 {
				after = mutationClass(log[i-1])
			}
			c.NoteCase(len(log) > 2, fmt.Sprintf("%s|crash-after-%d", c.Res.Summary, i))
			var clause, msg string
			simrt.NoPreempt(func() { clause, msg = loadedChainProblem(ns, img, announced) })
			if clause != "" {
				c.Violate(clause, "after="+after, "crash after storage mutation %d of %d (%s): %s", i, len(log), after, msg)
				continue
			}
			// a new node on the surviving image converges again
			ns.Disk = img
			ns.Rec, ns.Rec2 = nil, nil
			ns.Touch()
			ns.StartNode()
			ok, why := cr.settle()
			if !ok {
				c.Violate("crash-not-resumable", "after="+after, "a node started on the image after storage mutation %d of %d (%s) does not converge: %s (run returned=%v err=%v)", i, len(log), after, why, ns.RunDone, ns.RunErr)
			}
			if !ns.StopNode(10 * time.Minute) {
				c.Violate("stop-hang", "crash-restart", "Stop did not complete")
				return
			}
			c.Probe("crash_points_checked")
		}
	})
	ns.S.Run(func() bool { return done })
	c.Res.Nontrivial = len(log) > 2
	c.Res.Exhaustive = len(idx) == len(log)+1
	reportPanics(c, ns)
}

func runC10fail(c *Ctx) {
	// which operation fails: an index drawn over a range that covers the operation counts these
	// scenarios produce (a draw beyond the run's operations means no fault fired: not counted as
	// non-trivial)
	ops := pickFrom(c.Scen, 20, 40, 80, 160)
	j := int(c.Scen.Choose(uint32(ops)))
	f := c10fail{at: j}
	if c.Scen.Bool(1, 2) {
		// the n-th operation of one class, so that rare operations (the save of a full block file
		// at a roll-over, removes during a revert, the reorg record) are hit as often as common ones
		f = c10fail{at: -1, nth: int(c.Scen.Choose(4)),
			class: pickStr(c.Scen, "write:blocks-file", "write:blocks-file", "write:blocks-file", "remove:blocks-file", "remove:blocks-file", "read:blocks-file", "write:unconfirmed", "write:tx-state", "write:block-txids", "write:reorg-record", "remove:reorg-record", "write:peers")}
	}
	c.FaultConfigured("F-disk-err")
	cr, announced, _, _ := c10scenarioF(c, f)
	ns := cr.ns
	c.Res.Summary = fmt.Sprintf("op #%d of ~%d / %s#%d fails: %s", j, ops, f.class, f.nth, cr.sc.String())
	done := false
	simrt.Go("driver2", func() {
		defer func() { done = true }()
		// either outcome is allowed, so do not wait the full convergence budget before restarting
		ok, why := cr.settleWithin(90 * time.Second)
		if ok {
			c.Probe("survived_without_restart")
			// "with a linked chain in memory and on disk": what a clean stop leaves behind must load
			// and lead to the peer's chain as well
			if ns.failedOp != "" && !ns.RunDone {
				ns.Disk.FailOp = nil
				if !ns.StopNode(10 * time.Minute) {
					c.Violate("stop-hang", "after-disk-error", "Stop did not complete after an injected storage error")
					return
				}
				var clause, msg string
				simrt.NoPreempt(func() { clause, msg = loadedChainProblem(ns, ns.Disk, announced) })
				if clause != "" {
					c.Violate("error-"+clause, "survived/op="+ns.failedOp, "storage operation (%s) returned an error, the node carried on and converged, but after a clean stop: %s", ns.failedOp, msg)
					return
				}
				ns.Touch()
				ns.StartNode()
				if ok2, why2 := cr.settle(); !ok2 {
					c.Violate("error-not-recovered", "survived/op="+ns.failedOp, "storage operation (%s) returned an error; the node converged, but a node restarted on what it saved does not: %s", ns.failedOp, why2)
					return
				}
			}
		} else {
			// recover on restart?
			c.Probe("needed_restart")
			if !ns.RunDone {
				if !ns.StopNode(10 * time.Minute) {
					c.Violate("stop-hang", "after-disk-error", "Stop did not complete after an injected storage error")
					return
				}
			}
			var clause, msg string
			simrt.NoPreempt(func() { clause, msg = loadedChainProblem(ns, ns.Disk, announced) })
			if clause != "" {
				c.Violate("error-"+clause, "op="+ns.failedOp, "after storage operation #%d (%s) returned an error and the node was restarted: %s", j, ns.failedOp, msg)
				return
			}
			ns.Disk.FailOp = nil
			ns.Touch()
			ns.StartNode()
			ok2, why2 := cr.settle()
			if !ok2 {
				c.Violate("error-not-recovered", "op="+ns.failedOp, "storage operation #%d (%s) returned an error; the node neither converged (%s) nor did so after a restart (%s)", j, ns.failedOp, why, why2)
			}
		}
		// in-memory chain consistent (the harness's own reads must not trip the injected fault)
		ns.Disk.FailOp = nil
		simrt.NoPreempt(func() {
			blocks := ns.Node.VerifBlocks()
			ctx := quietCtx()
			for h := 1; h <= blocks.LastHeight(); h++ {
				hdr, err := blocks.Header(ctx, h)
				prev, err2 := blocks.Hash(ctx, h-1)
				if err != nil || err2 != nil || hdr.PrevBlock != *prev {
					c.Violate("error-unlinked", "op="+ns.failedOp, "after the injected error the in-memory chain is not linked at height %d", h)
					break
				}
			}
		})
		c.Res.Nontrivial = ns.failedOp != ""
	})
	ns.S.Run(func() bool { return done })
	reportPanics(c, ns)
}

func init() {
	real := []string{"internal/spynode.Node (Run, load, Stop)", "internal/handlers (headers incl. reorg path)", "internal/storage (BlockRepository, TxRepository, ReorgRepository, PeerRepository)", "internal/state"}
	stub := append([]string{"disk: simdisk with mutation log, crash images = initial image + first i mutations, single-operation error injection"}, txStub...)
	Register(&Check{Prop: "C10", Sub: "crash-points", Weight: 2, Real: real, Stub: stub,
		Req:  []string{"crash_points_checked", "mutation_write:blocks-file"},
		Rule: "a sync/reorg/shutdown scenario is run to completion with the storage mutation log recorded; then for every prefix of the log (quick: at most 60 prefixes, all around deletes and reorg records; thorough: all) the image is loaded the way a starting node does, checked for linkage and single-branch membership, and a new node is started on it and must converge. evaluations = crash images checked; non-trivial = more than two mutations in the scenario.",
		Run:  runC10crash})
	Register(&Check{Prop: "C10", Sub: "single-op-failure", Weight: 1, Real: real, Stub: stub,
		Rule: "the same scenario family with one storage operation (read, write or delete; index drawn from the tape over the scenario's operation count) returning an error: the node must converge anyway or after a clean restart, with a linked chain in memory and on disk.",
		Run:  runC10fail})
}

// ---- component level: crash points of the block store alone ---------------------------------------
//
// Deep reverts (tip one or two 1000-header files above the fork) are out of reach of the whole-node
// scenarios' budgets; the block repository is therefore also driven directly: add / AddNext / save /
// revert sequences around the file boundaries with the mutation log recorded, then EVERY prefix of
// the log is loaded into a fresh repository.

func runC10store(c *Ctx) {
	t := c.Scen
	cases := 3
	if c.Tier == "thorough" {
		cases = 5
	}
	for k := 0; k < cases; k++ {
		disk := NewSimDisk()
		disk.RemoveMissingErr = t.Bool(1, 2)
		s := newC09sut(disk)
		var desc strings.Builder
		fmt.Fprintf(&desc, "remove-missing-errors=%v; ", disk.RemoveMissingErr)
		if err := s.repo.Load(s.ctx); err != nil {
			c.Violate("load-error", "empty-disk", "%v", err)
			return
		}
		g := mainNetGenesisHeader()
		m := &c09model{hs: []wire.BlockHeader{g}, hashes: []bitcoin.Hash32{*g.BlockHash()}}
		m.useNext = func() bool { return t.Bool(1, 2) }
		ever := map[bitcoin.Hash32]wire.BlockHeader{*g.BlockHash(): g}
		salt := int(t.Choose(1 << 20))
		add := func(n int) bool {
			for i := 0; i < n; i++ {
				if err := m.add(s, &salt); err != nil {
					c.Violate("op-error", "add", "%v after %s", err, desc.String())
					return false
				}
				ever[m.hashes[m.tip()]] = m.hs[m.tip()]
			}
			fmt.Fprintf(&desc, "add*%d; ", n)
			return true
		}
		if !add([]int{3, 997, 999, 1000, 1001, 1005, 1500, 1999, 2000, 2003, 2500, 3001}[t.Choose(12)]) {
			return
		}
		nops := 2 + int(t.Choose(5))
		reverted := false
		for i := 0; i < nops; i++ {
			switch t.Choose(6) {
			case 0, 1:
				if !add(pickFrom(t, 1, 2, 5, 998, 1000, 1003)) {
					return
				}
			case 2:
				if err := s.repo.Save(s.ctx); err != nil {
					c.Violate("op-error", "save", "%v after %s", err, desc.String())
					return
				}
				desc.WriteString("save; ")
			default:
				tip := m.tip()
				target := biasedHeight(c, tip)
				if target < 0 {
					target = 0
				}
				if target >= tip {
					target = tip - 1 - int(t.Choose(3))
				}
				if target < 0 {
					continue
				}
				if t.Bool(1, 3) {
					if err := s.repo.Save(s.ctx); err == nil {
						desc.WriteString("save; ")
					}
				}
				if err := s.repo.Revert(s.ctx, target); err != nil {
					c.Violate("op-error", "revert", "Revert(%d) from %d: %v after %s", target, tip, err, desc.String())
					return
				}
				m.hs, m.hashes = m.hs[:target+1], m.hashes[:target+1]
				fmt.Fprintf(&desc, "revert(%d<-%d); ", target, tip)
				reverted = true
				if tip/1000-target/1000 >= 2 {
					c.Probe("revert_across_two_files")
				} else if tip/1000 != target/1000 {
					c.Probe("revert_across_file_boundary")
				}
			}
		}
		if t.Bool(2, 3) {
			s.repo.Save(s.ctx)
			desc.WriteString("save; ")
		}
		_ = reverted
		log := disk.Log
		empty := NewSimDisk()
		for i := 0; i <= len(log); i++ {
			img := ImageAt(empty, log, i)
			after := "start"
			if i > 0 {
				after = mutationClass(log[i-1])
			}
			c.NoteCase(true, fmt.Sprintf("%s#%d", desc.String(), i))
			repo := storage.NewBlockRepository(config.Config{Net: bitcoin.MainNet}, img)
			var err error
			if p := guard(func() { err = repo.Load(quietCtx()) }); p != "" {
				c.Violate("crash-load-error", "store/panic/after="+after, "loading the image after storage mutation %d of %d (%s) panicked: %s; history: %s", i, len(log), after, p, desc.String())
				return
			}
			if err != nil {
				c.Violate("crash-load-error", "store/after="+after, "the image after storage mutation %d of %d (%s) does not load: %v; history: %s", i, len(log), after, err, desc.String())
				return
			}
			lh := repo.LastHeight()
			var prev bitcoin.Hash32
			havePrev := false
			for h := 0; h <= lh; h++ {
				if !c10heightWanted(h, lh) {
					havePrev = false
					continue
				}
				hdr, err := repo.Header(quietCtx(), h)
				if err != nil {
					c.Violate("crash-load-error", "store/header/after="+after, "image %d of %d (%s): Header(%d) of a loaded chain of height %d fails: %v; history: %s", i, len(log), after, h, lh, err, desc.String())
					return
				}
				hh := *hdr.BlockHash()
				if _, ok := ever[hh]; !ok {
					c.Violate("crash-mixed", "store/foreign-header", "image %d of %d: loaded header at height %d was never added", i, len(log), h)
					return
				}
				if h > 0 && havePrev && hdr.PrevBlock != prev {
					c.Violate("crash-unlinked", "store/after="+after, "image %d of %d (%s): the loaded chain (height %d) is not linked at height %d: a mixture of an old and a new branch; history: %s", i, len(log), after, lh, h, desc.String())
					return
				}
				if hgt, ok := repo.Height(&hh); !ok || hgt != h {
					c.Violate("crash-unlinked", "store/height-map", "image %d of %d: Height(Hash(%d)) = %d,%v", i, len(log), h, hgt, ok)
					return
				}
				prev = hh
				havePrev = true
			}
			c.Probe("store_images_checked")
		}
		if k == 0 {
			c.Res.Summary = desc.String()
		}
	}
	c.Res.Nontrivial = true
}

func init() {
	Register(&Check{Prop: "C10", Sub: "blockstore-crash-points", Weight: 1,
		Real: []string{"internal/storage.BlockRepository (Load, Add, AddNext, Save, Revert)"},
		Stub: []string{"disk: simdisk with mutation log (both remove-missing semantics); crash images = first i mutations, all i"},
		Req:  []string{"store_images_checked", "revert_across_file_boundary", "revert_across_two_files"},
		Rule: "per case: bulk add to a size around a 1000-header file boundary (3..3001), then 2-6 of {add 1..1003 via Add or AddNext, save, revert to a biased target (optionally saved first)}; the storage mutation log is recorded and EVERY prefix is loaded into a fresh repository: it must load, be hash-linked from genesis to its tip, contain only headers that were added, and answer Height(Hash(h)) = h.",
		Run:  runC10store})
}

// ---- component level: one failing storage operation, every position -----------------------------

type c10sop struct {
	kind   string // add | save | revert
	n      int    // add: how many
	next   []bool // add: per header, through AddNext
	target int    // revert
}

// c10storeExec runs a history on a fresh disk with storage operation failAt (-1: none) failing once.
// The caller reacts to an error the way the node does: save what it has and try the step again.
// Returns the model, the repository, the disk and the number of storage operations used.
// c10storeExecWith runs the history fault-free with an observer on every storage operation.
func c10storeExecWith(hist []c10sop, removeMissingErr bool, salt0 int, observe func(n int, kind, key string) error) {
	c10storeExecObs(hist, removeMissingErr, -1, salt0, observe)
}

func c10storeExec(hist []c10sop, removeMissingErr bool, failAt int, salt0 int) (*c09model, *c09sut, *SimDisk, string, string) {
	return c10storeExecObs(hist, removeMissingErr, failAt, salt0, nil)
}

func c10storeExecObs(hist []c10sop, removeMissingErr bool, failAt int, salt0 int, observe func(n int, kind, key string) error) (*c09model, *c09sut, *SimDisk, string, string) {
	disk := NewSimDisk()
	disk.RemoveMissingErr = removeMissingErr
	failedOp := ""
	if observe != nil {
		disk.FailOp = observe
	}
	if failAt >= 0 {
		disk.FailOp = func(n int, kind, key string) error {
			if n == failAt {
				failedOp = mutationClass(Mutation{Op: kind, Key: key})
				return ErrInjected
			}
			return nil
		}
	}
	s := newC09sut(disk)
	if err := s.repo.Load(s.ctx); err != nil {
		if err = s.repo.Load(s.ctx); err != nil {
			return nil, s, disk, failedOp, "load fails twice: " + err.Error()
		}
	}
	g := mainNetGenesisHeader()
	m := &c09model{hs: []wire.BlockHeader{g}, hashes: []bitcoin.Hash32{*g.BlockHash()}}
	salt := salt0
	changed := ""
	retry := func(f func() error) error {
		err := f()
		if err == nil {
			return nil
		}
		// a step that failed must not have changed any answer
		disk.FailOp = nil
		if why := c10storeSame(s.repo, m); why != "" && changed == "" {
			changed = why
		}
		s.repo.Save(s.ctx) // what Node.Run does on its way to a reconnect
		return f()
	}
	for _, op := range hist {
		switch op.kind {
		case "add":
			for i := 0; i < op.n; i++ {
				salt++
				hdr := wire.BlockHeader{Version: 1, PrevBlock: m.hashes[m.tip()], MerkleRoot: dsha([]byte(fmt.Sprint("m", salt))),
					Timestamp: uint32(1500000000 + salt), Bits: 0x1d00ffff, Nonce: uint32(salt)}
				useNext := op.next[i]
				err := retry(func() error {
					if useNext {
						if s.repo.LastHeight() > m.tip() {
							return nil // the failed attempt had added it after all
						}
						ok, err := s.repo.AddNext(s.ctx, &hdr)
						if err == nil && !ok {
							return fmt.Errorf("AddNext refused the next header at height %d", m.tip()+1)
						}
						return err
					}
					if s.repo.LastHeight() > m.tip() {
						return nil
					}
					return s.repo.Add(s.ctx, &hdr)
				})
				if err != nil {
					return m, s, disk, failedOp, fmt.Sprintf("add at height %d fails twice: %v", m.tip()+1, err)
				}
				m.hs = append(m.hs, hdr)
				m.hashes = append(m.hashes, *hdr.BlockHash())
			}
		case "save":
			if err := retry(func() error { return s.repo.Save(s.ctx) }); err != nil {
				return m, s, disk, failedOp, "save fails twice: " + err.Error()
			}
		case "revert":
			t := op.target
			if t >= m.tip() {
				continue
			}
			if err := retry(func() error { return s.repo.Revert(s.ctx, t) }); err != nil {
				return m, s, disk, failedOp, fmt.Sprintf("revert to %d fails twice: %v", t, err)
			}
			m.hs, m.hashes = m.hs[:t+1], m.hashes[:t+1]
		}
	}
	disk.FailOp = nil
	if changed != "" {
		return m, s, disk, failedOp, "CHANGED:" + changed
	}
	if err := s.repo.Save(s.ctx); err != nil {
		return m, s, disk, failedOp, "final save: " + err.Error()
	}
	return m, s, disk, failedOp, ""
}

// c10heightWanted thins out the heights checked in files far below the tip (every query there
// reads and parses a whole 1000-header file): everything within 1100 of the tip and within 3 of a
// file boundary, every 13th height elsewhere.
func c10heightWanted(h, tip int) bool {
	if tip-h <= 1100 || h%1000 <= 3 || h%1000 >= 997 {
		return true
	}
	return h%13 == 0
}

func c10storeSame(repo *storage.BlockRepository, m *c09model) string {
	if lh := repo.LastHeight(); lh != m.tip() {
		return fmt.Sprintf("height %d, expected %d", lh, m.tip())
	}
	for h := 0; h <= m.tip(); h++ {
		if !c10heightWanted(h, m.tip()) {
			continue
		}
		hdr, err := repo.Header(quietCtx(), h)
		if err != nil {
			return fmt.Sprintf("Header(%d) of %d fails: %v", h, m.tip(), err)
		}
		if *hdr.BlockHash() != m.hashes[h] {
			return fmt.Sprintf("header at height %d of %d is not the one that was added there", h, m.tip())
		}
	}
	return ""
}

func runC10storeFail(c *Ctx) {
	t := c.Scen
	cases := 1
	if c.Tier == "thorough" {
		cases = 3
	}
	for k := 0; k < cases; k++ {
		var hist []c10sop
		var desc strings.Builder
		tip := 0
		add := func(n int) {
			op := c10sop{kind: "add", n: n}
			mode := t.Choose(3)
			for i := 0; i < n; i++ {
				op.next = append(op.next, mode == 1 || (mode == 2 && t.Bool(1, 2)))
			}
			hist = append(hist, op)
			tip += n
			fmt.Fprintf(&desc, "add*%d(mode %d); ", n, mode)
		}
		add([]int{3, 990, 997, 999, 1000, 1001, 1005, 1999, 2000, 2003}[t.Choose(10)])
		for i := 2 + int(t.Choose(4)); i > 0; i-- {
			switch t.Choose(5) {
			case 0, 1:
				add(pickFrom(t, 1, 2, 5, 12, 998, 1000))
			case 2:
				hist = append(hist, c10sop{kind: "save"})
				desc.WriteString("save; ")
			default:
				target := biasedHeight(c, tip)
				if target < 0 || target >= tip {
					target = tip - 1 - int(t.Choose(3))
				}
				if target < 0 {
					continue
				}
				hist = append(hist, c10sop{kind: "revert", target: target})
				fmt.Fprintf(&desc, "revert(%d<-%d); ", target, tip)
				tip = target
			}
		}
		rme := t.Bool(1, 2)
		salt0 := int(t.Choose(1 << 20))
		// fault-free pass: counts the storage operations and must itself be right
		m0, s0, d0, _, problem := c10storeExec(hist, rme, -1, salt0)
		if problem == "" {
			problem = c10storeSame(s0.repo, m0)
		}
		if problem != "" {
			c.Violate("op-error", "store/fault-free", "%s; history: %s", problem, desc.String())
			return
		}
		nOps := d0.OpCount
		// failure positions: every write and remove (a revert reads one file per removed height,
		// so reads dominate the count) plus evenly spread reads
		var js []int
		{
			var kinds []string
			probe := func(n int, kind, key string) error {
				for len(kinds) <= n {
					kinds = append(kinds, "")
				}
				kinds[n] = kind
				return nil
			}
			c10storeExecWith(hist, rme, salt0, probe)
			maxMut, reads := 30, 8
			if c.Tier == "thorough" {
				maxMut, reads = 120, 30
			}
			var muts, rds []int
			for j, k := range kinds {
				if k == "write" || k == "remove" {
					muts = append(muts, j)
				} else {
					rds = append(rds, j)
				}
			}
			for len(muts) > maxMut { // keep the first and the last ones, thin out the middle
				muts = append(muts[:maxMut/2], muts[len(muts)-maxMut/2:]...)
			}
			js = append(js, muts...)
			step := len(rds)/reads + 1
			for i := 0; i < len(rds); i += step {
				js = append(js, rds[i])
			}
			sort.Ints(js)
		}
		_ = nOps
		for _, j := range js {
			m, s, disk, failed, problem := c10storeExec(hist, rme, j, salt0)
			c.NoteCase(true, fmt.Sprintf("%s!%d", desc.String(), j))
			if failed == "" {
				continue
			}
			c.FaultFired("F-disk-err")
			c.Probe("store_single_failure_checked")
			if strings.HasPrefix(problem, "CHANGED:") {
				c.Violate("failed-op-changed-answers", "store/op="+failed, "storage operation #%d (%s) failed and the step returned an error, but the repository no longer answers as before the step: %s; history: %s", j, failed, problem[8:], desc.String())
				return
			}
			if problem != "" {
				c.Violate("error-not-recovered", "store/op="+failed, "storage operation #%d (%s) fails once and the step is tried again after a save: %s; history: %s", j, failed, problem, desc.String())
				return
			}
			if why := c10storeSame(s.repo, m); why != "" {
				c.Violate("error-unlinked", "store/memory/op="+failed, "after storage operation #%d (%s) failed once, the running repository: %s; history: %s", j, failed, why, desc.String())
				return
			}
			fresh := storage.NewBlockRepository(config.Config{Net: bitcoin.MainNet}, disk.Clone())
			if err := fresh.Load(quietCtx()); err != nil {
				c.Violate("error-crash-load-error", "store/disk/op="+failed, "after storage operation #%d (%s) failed once and everything was saved, a new repository does not load: %v; history: %s", j, failed, err, desc.String())
				return
			}
			if why := c10storeSame(fresh, m); why != "" {
				c.Violate("error-unlinked", "store/disk/op="+failed, "after storage operation #%d (%s) failed once and everything was saved, a newly loaded repository: %s; history: %s", j, failed, why, desc.String())
				return
			}
		}
		if k == 0 {
			c.Res.Summary = fmt.Sprintf("%d storage operations, %d failure positions: %s", nOps, len(js), desc.String())
		}
	}
	c.Res.Nontrivial = true
}

func init() {
	Register(&Check{Prop: "C10", Sub: "blockstore-single-failure", Weight: 1,
		Real: []string{"internal/storage.BlockRepository (Load, Add, AddNext, Save, Revert)"},
		Stub: []string{"disk: simdisk with one failing operation; the caller (save, then try the step again) stands in for Node.Run's reconnect"},
		Req:  []string{"store_single_failure_checked"},
		Rule: "per case a history of adds (Add/AddNext), saves and reverts around the 1000-header file boundaries is run once fault-free to count its storage operations, then once per failure position (thorough: every position up to 80, evenly spread beyond; quick: 24 evenly spread) with that one operation returning an error; the caller saves and tries the step again like the node does. Afterwards the running repository and a repository newly loaded from the disk must both equal the model chain at every height.",
		Run:  runC10storeFail})
}
