//go:build go1.26

package verifsim

import (
	"bytes"
	"fmt"
	"reflect"

	"github.com/tokenized/pkg/bitcoin"
	"github.com/tokenized/pkg/expanded_tx"
	"github.com/tokenized/pkg/merchant_api"
	"github.com/tokenized/pkg/merkle_proof"
	"github.com/tokenized/pkg/wire"
	"github.com/tokenized/spynode/pkg/client"
	"verif.local/simrt"
)

// ---- generators for every client protocol message type ------------------------------------------

var allMessageTypes = []uint64{
	client.MessageTypeRegister, client.MessageTypeSubscribePushData, client.MessageTypeUnsubscribePushData,
	client.MessageTypeSubscribeTx, client.MessageTypeUnsubscribeTx, client.MessageTypeSubscribeOutputs,
	client.MessageTypeUnsubscribeOutputs, client.MessageTypeSubscribeHeaders, client.MessageTypeUnsubscribeHeaders,
	client.MessageTypeSubscribeContracts, client.MessageTypeUnsubscribeContracts, client.MessageTypeReady,
	client.MessageTypeGetChainTip, client.MessageTypeGetHeaders, client.MessageTypeSendTx,
	client.MessageTypeSendExpandedTx, client.MessageTypeSaveTxs, client.MessageTypeGetTx, client.MessageTypeGetHeader,
	client.MessageTypeGetFeeQuotes, client.MessageTypePostMerkleProofs, client.MessageTypeReprocessTx,
	client.MessageTypeMarkHeaderInvalid, client.MessageTypeMarkHeaderNotInvalid,
	client.MessageTypeAcceptRegister, client.MessageTypeBaseTx, client.MessageTypeTx, client.MessageTypeTxUpdate,
	client.MessageTypeInSync, client.MessageTypeChainTip, client.MessageTypeHeaders, client.MessageTypeHeader,
	client.MessageTypeFeeQuotes, client.MessageTypeAccept, client.MessageTypeReject, client.MessageTypePing,
	client.MessageTypePong,
}

type msgGen struct {
	t *simrt.Tape
	n int
	keyA, keyB bitcoin.Key
}

func newMsgGen(t *simrt.Tape) *msgGen {
	return &msgGen{t: t, keyA: fixedKey("gen-a"), keyB: fixedKey("gen-b")}
}

// boundary integers at every varint width
func (g *msgGen) u64() uint64 {
	b := []uint64{0, 1, 0xfc, 0xfd, 0xfe, 0xffff, 0x10000, 0xffffffff, 0x100000000, 1<<63 - 1, 1 << 63, 1<<64 - 1}
	if g.t.Bool(1, 3) {
		return uint64(g.t.Raw())<<32 | uint64(g.t.Raw())
	}
	return b[g.t.Choose(uint32(len(b)))]
}

func (g *msgGen) u32() uint32 {
	b := []uint32{0, 1, 0xfc, 0xfd, 0xffff, 0x10000, 0x7fffffff, 0x80000000, 0xffffffff}
	if g.t.Bool(1, 3) {
		return g.t.Raw()
	}
	return b[g.t.Choose(uint32(len(b)))]
}

func (g *msgGen) hash() bitcoin.Hash32 {
	g.n++
	switch g.t.Choose(16) {
	case 0, 1: // boundary values: a present hash may be all zero
		return bitcoin.Hash32{}
	case 2:
		var h bitcoin.Hash32
		for i := range h {
			h[i] = 0xff
		}
		return h
	}
	return dsha([]byte(fmt.Sprint("gen", g.n, g.t.Raw())))
}

func (g *msgGen) length() int {
	// list / script lengths incl. the varint boundaries
	return []int{0, 0, 1, 1, 2, 3, 7, 0xfc, 0xfd, 0xfe, 300}[g.t.Choose(11)]
}

func (g *msgGen) bytes(n int) []byte {
	b := make([]byte, n)
	x := uint64(g.t.Raw())
	for i := range b {
		b[i] = byte(simrt.SplitMix(&x))
	}
	return b
}

func (g *msgGen) script() []byte {
	n := g.length()
	if g.t.Bool(1, 40) {
		n = 70000 // needs the 4-byte length form
	}
	return g.bytes(n)
}

func (g *msgGen) tx() *wire.MsgTx {
	tx := wire.NewMsgTx(int32(g.t.Choose(3)))
	nin := int(g.t.Choose(4))
	for i := 0; i < nin; i++ {
		h := g.hash()
		in := wire.NewTxIn(wire.NewOutPoint(&h, g.u32()), g.script())
		in.Sequence = g.u32()
		tx.AddTxIn(in)
	}
	nout := int(g.t.Choose(4))
	for i := 0; i < nout; i++ {
		tx.AddTxOut(wire.NewTxOut(g.u64(), g.script()))
	}
	tx.LockTime = g.u32()
	return tx
}

func (g *msgGen) header() *wire.BlockHeader {
	return &wire.BlockHeader{Version: int32(g.t.Raw()), PrevBlock: g.hash(), MerkleRoot: g.hash(), Timestamp: g.u32(), Bits: g.u32(), Nonce: g.u32()}
}

func (g *msgGen) sig() bitcoin.Signature {
	s, err := g.keyA.Sign(g.hash())
	if err != nil {
		panic(err)
	}
	return s
}

func (g *msgGen) clientProof() *client.MerkleProof {
	mp := &client.MerkleProof{Index: uint64(g.t.Choose(1 << 20)), BlockHeader: *g.header()}
	n := int(g.t.Choose(6))
	for i := 0; i < n; i++ {
		mp.Path = append(mp.Path, g.hash())
	}
	nd := int(g.t.Choose(3))
	for i := 0; i < nd; i++ {
		mp.DuplicatedIndexes = append(mp.DuplicatedIndexes, uint64(g.t.Choose(20)))
	}
	return mp
}

func (g *msgGen) state() client.TxState {
	s := client.TxState{Safe: g.t.Bool(1, 2), UnSafe: g.t.Bool(1, 2), Cancelled: g.t.Bool(1, 2), UnconfirmedDepth: g.u32()}
	if g.t.Bool(1, 2) {
		s.MerkleProof = g.clientProof()
	}
	return s
}

func (g *msgGen) pkgProof() *merkle_proof.MerkleProof {
	id := g.hash()
	mp := &merkle_proof.MerkleProof{Index: 2 * int(g.t.Choose(1000)), TxID: &id}
	switch g.t.Choose(3) {
	case 0:
		mp.BlockHeader = g.header()
	case 1:
		h := g.hash()
		mp.MerkleRoot = &h
	default:
		h := g.hash()
		mp.BlockHash = &h
	}
	n := int(g.t.Choose(5))
	for i := 0; i < n; i++ {
		mp.Path = append(mp.Path, g.hash())
	}
	return mp
}

func (g *msgGen) ancestors() expanded_tx.AncestorTxs {
	var out expanded_tx.AncestorTxs
	n := int(g.t.Choose(3))
	for i := 0; i < n; i++ {
		out = append(out, &expanded_tx.AncestorTx{Tx: g.tx()})
	}
	return out
}

// payload creates a value of the given message type.
func (g *msgGen) payload(typ uint64) client.MessagePayload {
	t := g.t
	switch typ {
	case client.MessageTypeRegister:
		return &client.Register{Version: uint8(t.Raw()), Key: g.keyA.PublicKey(), Hash: g.hash(), StartBlockHeight: g.u32(),
			ChainTip: g.hash(), ConnectionType: client.ConnectionType(1 + t.Choose(2)), Signature: g.sig()}
	case client.MessageTypeSubscribePushData, client.MessageTypeUnsubscribePushData:
		var pds [][]byte
		n := g.length() % 9
		for i := 0; i < n; i++ {
			pds = append(pds, g.bytes([]int{0, 1, 20, 32, 75, 76, 0xfd, 600, 4096, 4097, 9000}[t.Choose(11)]))
		}
		if typ == client.MessageTypeSubscribePushData {
			return &client.SubscribePushData{PushDatas: pds}
		}
		return &client.UnsubscribePushData{PushDatas: pds}
	case client.MessageTypeSubscribeTx, client.MessageTypeUnsubscribeTx:
		var idx []uint32
		for i := 0; i < g.length(); i++ {
			idx = append(idx, g.u32())
		}
		if typ == client.MessageTypeSubscribeTx {
			return &client.SubscribeTx{TxID: g.hash(), Indexes: idx}
		}
		return &client.UnsubscribeTx{TxID: g.hash(), Indexes: idx}
	case client.MessageTypeSubscribeOutputs, client.MessageTypeUnsubscribeOutputs:
		var ops []*wire.OutPoint
		for i := 0; i < g.length(); i++ {
			h := g.hash()
			ops = append(ops, wire.NewOutPoint(&h, g.u32()))
		}
		if typ == client.MessageTypeSubscribeOutputs {
			return &client.SubscribeOutputs{Outputs: ops}
		}
		return &client.UnsubscribeOutputs{Outputs: ops}
	case client.MessageTypeSubscribeHeaders:
		return &client.SubscribeHeaders{}
	case client.MessageTypeUnsubscribeHeaders:
		return &client.UnsubscribeHeaders{}
	case client.MessageTypeSubscribeContracts:
		return &client.SubscribeContracts{}
	case client.MessageTypeUnsubscribeContracts:
		return &client.UnsubscribeContracts{}
	case client.MessageTypeReady:
		return &client.Ready{NextMessageID: g.u64()}
	case client.MessageTypeGetChainTip:
		return &client.GetChainTip{}
	case client.MessageTypeGetHeaders:
		return &client.GetHeaders{RequestHeight: int32(g.u32()), MaxCount: g.u32()}
	case client.MessageTypeSendTx:
		var idx []uint32
		for i := 0; i < g.length()%20; i++ {
			idx = append(idx, g.u32())
		}
		return &client.SendTx{Tx: g.tx(), Indexes: idx}
	case client.MessageTypeSendExpandedTx:
		var idx []uint32
		for i := 0; i < g.length()%20; i++ {
			idx = append(idx, g.u32())
		}
		return &client.SendExpandedTx{Tx: &expanded_tx.ExpandedTx{Tx: g.tx(), Ancestors: g.ancestors()}, Indexes: idx}
	case client.MessageTypeSaveTxs:
		return &client.SaveTxs{Txs: g.ancestors()}
	case client.MessageTypeGetTx:
		return &client.GetTx{TxID: g.hash()}
	case client.MessageTypeGetHeader:
		return &client.GetHeader{BlockHash: g.hash()}
	case client.MessageTypeGetFeeQuotes:
		return &client.GetFeeQuotes{}
	case client.MessageTypePostMerkleProofs:
		var mps []*merkle_proof.MerkleProof
		for i := 0; i < int(t.Choose(4)); i++ {
			mps = append(mps, g.pkgProof())
		}
		return &client.PostMerkleProofs{MerkleProofs: mps}
	case client.MessageTypeReprocessTx:
		var ids []bitcoin.Hash20
		for i := 0; i < g.length()%30; i++ {
			var h bitcoin.Hash20
			copy(h[:], g.bytes(20))
			ids = append(ids, h)
		}
		return &client.ReprocessTx{TxID: g.hash(), ClientIDs: ids}
	case client.MessageTypeMarkHeaderInvalid:
		return &client.MarkHeaderInvalid{BlockHash: g.hash()}
	case client.MessageTypeMarkHeaderNotInvalid:
		return &client.MarkHeaderNotInvalid{BlockHash: g.hash()}
	case client.MessageTypeAcceptRegister:
		return &client.AcceptRegister{Key: g.keyB.PublicKey(), PushDataCount: g.u64(), UTXOCount: g.u64(), MessageCount: g.u64(), Signature: g.sig()}
	case client.MessageTypeBaseTx:
		return &client.BaseTx{Tx: g.tx()}
	case client.MessageTypeTx:
		tx := g.tx()
		var outs []*wire.TxOut
		for range tx.TxIn {
			outs = append(outs, wire.NewTxOut(g.u64(), g.script()))
		}
		return &client.Tx{ID: g.u64(), Tx: tx, Outputs: outs, State: g.state()}
	case client.MessageTypeTxUpdate:
		return &client.TxUpdate{ID: g.u64(), TxID: g.hash(), State: g.state()}
	case client.MessageTypeInSync:
		return &client.InSync{}
	case client.MessageTypeChainTip:
		return &client.ChainTip{Height: g.u32(), Hash: g.hash()}
	case client.MessageTypeHeaders:
		h := &client.Headers{RequestHeight: int32(g.u32()), StartHeight: g.u32()}
		for i := 0; i < g.length()%40; i++ {
			h.Headers = append(h.Headers, g.header())
		}
		return h
	case client.MessageTypeHeader:
		return &client.Header{Header: *g.header(), BlockHeight: g.u32(), IsMostPOW: t.Bool(1, 2)}
	case client.MessageTypeFeeQuotes:
		var q merchant_api.FeeQuotes
		for i := 0; i < int(t.Choose(4)); i++ {
			q = append(q, &merchant_api.FeeQuote{FeeType: merchant_api.FeeType(t.Choose(2)),
				MiningFee: merchant_api.Fee{Satoshis: g.u64(), Bytes: g.u64()}, RelayFee: merchant_api.Fee{Satoshis: g.u64(), Bytes: g.u64()}})
		}
		return &client.FeeQuotes{FeeQuotes: q}
	case client.MessageTypeAccept:
		a := &client.Accept{MessageType: g.u64()}
		if t.Bool(1, 2) {
			h := g.hash()
			a.Hash = &h
		}
		return a
	case client.MessageTypeReject:
		r := &client.Reject{MessageType: g.u64(), Code: client.RejectCode(g.u32()), Message: string(g.bytes([]int{g.length() % 400, g.length() % 400, g.length() % 400, 4096, 4097, 6000}[t.Choose(6)]))}
		if t.Bool(1, 2) {
			h := g.hash()
			r.Hash = &h
		}
		return r
	case client.MessageTypePing:
		return &client.Ping{TimeStamp: g.u64()}
	case client.MessageTypePong:
		return &client.Pong{RequestTimeStamp: g.u64(), TimeStamp: g.u64()}
	}
	panic(fmt.Sprintf("no generator for message type %d", typ))
}

func encodeMessage(p client.MessagePayload) ([]byte, error) {
	var buf bytes.Buffer
	m := client.Message{Payload: p}
	if err := m.Serialize(&buf); err != nil {
		return nil, err
	}
	return buf.Bytes(), nil
}

// ---- structural equality that treats nil and empty slices alike --------------------------------

func semEqual(a, b interface{}) (bool, string) {
	return semEq(reflect.ValueOf(a), reflect.ValueOf(b), "")
}

type byteser interface{ Bytes() []byte }

func semEq(a, b reflect.Value, path string) (bool, string) {
	if !a.IsValid() || !b.IsValid() {
		if a.IsValid() != b.IsValid() {
			return false, path + ": one side missing"
		}
		return true, ""
	}
	if a.Type() != b.Type() {
		return false, fmt.Sprintf("%s: type %s vs %s", path, a.Type(), b.Type())
	}
	// values with a canonical byte form (keys, signatures, big integers)
	if a.CanInterface() {
		if x, ok := a.Interface().(byteser); ok && a.Kind() == reflect.Struct {
			y := b.Interface().(byteser)
			if !bytes.Equal(x.Bytes(), y.Bytes()) {
				return false, path + ": bytes differ"
			}
			return true, ""
		}
	}
	switch a.Kind() {
	case reflect.Ptr, reflect.Interface:
		if a.IsNil() || b.IsNil() {
			if a.IsNil() != b.IsNil() {
				return false, path + ": nil vs non-nil"
			}
			return true, ""
		}
		return semEq(a.Elem(), b.Elem(), path)
	case reflect.Struct:
		for i := 0; i < a.NumField(); i++ {
			f := a.Type().Field(i)
			if f.PkgPath != "" {
				continue // unexported scratch fields
			}
			if ok, why := semEq(a.Field(i), b.Field(i), path+"."+f.Name); !ok {
				return false, why
			}
		}
		return true, ""
	case reflect.Slice:
		if a.Len() != b.Len() {
			return false, fmt.Sprintf("%s: length %d vs %d", path, a.Len(), b.Len())
		}
		for i := 0; i < a.Len(); i++ {
			if ok, why := semEq(a.Index(i), b.Index(i), fmt.Sprintf("%s[%d]", path, i)); !ok {
				return false, why
			}
		}
		return true, ""
	case reflect.Array:
		for i := 0; i < a.Len(); i++ {
			if ok, why := semEq(a.Index(i), b.Index(i), fmt.Sprintf("%s[%d]", path, i)); !ok {
				return false, why
			}
		}
		return true, ""
	case reflect.Map:
		if a.Len() != b.Len() {
			return false, path + ": map size"
		}
		return true, ""
	case reflect.String:
		if a.String() != b.String() {
			return false, path + ": string differs"
		}
		return true, ""
	case reflect.Bool:
		if a.Bool() != b.Bool() {
			return false, path + ": bool differs"
		}
		return true, ""
	case reflect.Int, reflect.Int8, reflect.Int16, reflect.Int32, reflect.Int64:
		if a.Int() != b.Int() {
			return false, fmt.Sprintf("%s: %d vs %d", path, a.Int(), b.Int())
		}
		return true, ""
	case reflect.Uint, reflect.Uint8, reflect.Uint16, reflect.Uint32, reflect.Uint64, reflect.Uintptr:
		if a.Uint() != b.Uint() {
			return false, fmt.Sprintf("%s: %d vs %d", path, a.Uint(), b.Uint())
		}
		return true, ""
	}
	return true, ""
}
