//go:build go1.26

package verifsim

import (
	"strings"
	"bytes"
	"fmt"
	"sort"
	"time"

	"github.com/tokenized/pkg/bitcoin"
	"github.com/tokenized/pkg/wire"
	"github.com/tokenized/spynode/pkg/client"
	"verif.local/simrt"
)

// verifyProof is the harness's own merkle-proof verifier (independent of the repository's).
func verifyProof(txid bitcoin.Hash32, p *client.MerkleProof) (bitcoin.Hash32, bool) {
	h := txid
	idx := p.Index
	dups := map[uint64]bool{} // tree levels (1 = leaves) at which the node is paired with itself
	for _, d := range p.DuplicatedIndexes {
		dups[d] = true
	}
	pi := 0
	for level := uint64(1); level <= 64; level++ {
		var sib bitcoin.Hash32
		if dups[level] {
			if idx%2 == 1 {
				return h, false // only a left node can be duplicated
			}
			sib = h
		} else if pi < len(p.Path) {
			sib = p.Path[pi]
			pi++
		} else {
			break
		}
		var buf [64]byte
		if idx%2 == 0 {
			copy(buf[:32], h[:])
			copy(buf[32:], sib[:])
		} else {
			copy(buf[:32], sib[:])
			copy(buf[32:], h[:])
		}
		h = dsha(buf[:])
		idx /= 2
	}
	return h, idx == 0 && h == p.BlockHeader.MerkleRoot
}

func sharesOutpoint(a, b *txSpec) bool {
	for _, x := range a.spends {
		for _, y := range b.spends {
			if x == y {
				return true
			}
		}
	}
	return false
}

type txEval struct {
	tr   *txRun
	hs   map[bitcoin.Hash32]*txHistory
	subs map[[20]byte]int
}

func newTxEval(tr *txRun) *txEval {
	var k [20]byte
	copy(k[:], subKey)
	return &txEval{tr: tr, hs: tr.histories(), subs: map[[20]byte]int{k: 1}}
}

func (e *txEval) label(ts *txSpec) string { return fmt.Sprintf("T%d(%s)", ts.idx, shortHash(ts.id)) }

// minedBefore: the transaction was confirmed in a block mined before t (+margin).
func (e *txEval) minedBefore(ts *txSpec, t time.Duration) bool {
	if ts.inBlock < 0 {
		return false
	}
	at, ok := e.tr.minedAt[ts.inBlock]
	return ok && at < t
}

// evictedBefore: a transaction sharing an outpoint with ts was confirmed in a block mined before
// t, so ts lost the race on chain and is no longer a live unconfirmed transaction.
func (e *txEval) evictedBefore(ts *txSpec, t time.Duration) bool {
	for _, w := range e.tr.sc.txs {
		if w != ts && sharesOutpoint(w, ts) && e.minedBefore(w, t) {
			return true
		}
	}
	return false
}

func (e *txEval) arrivalClass(h *txHistory) string {
	if h.localAt >= 0 {
		return "local"
	}
	if len(h.bodySources) > 0 {
		if h.bodySources[0] == "trusted" {
			return "trusted-peer"
		}
		return "untrusted-peer"
	}
	if h.spec.inBlock >= 0 {
		return "first-seen-in-block"
	}
	return "never-arrived"
}

// C03 ---------------------------------------------------------------------------------------------

func (e *txEval) checkDelivery(c *Ctx) {
	tr := e.tr
	ns := tr.ns
	// irrelevant never delivered; spent outputs; duplicates
	seen := map[bitcoin.Hash32]int{}
	for _, cb := range ns.Rec.Log {
		if cb.Kind != "tx" {
			continue
		}
		txid := *cb.Tx.Tx.TxHash()
		seen[txid]++
		if (e.tr.sc.rel == nil && !refRelevant(cb.Tx.Tx, e.subs)) || (e.tr.sc.rel != nil && !e.tr.sc.rel(cb.Tx.Tx)) {
			c.Violate("irrelevant-delivered", "HandleTx", "transaction %s matches no subscription but was delivered as new at t=%v", shortHash(txid), cb.At)
		}
		if len(cb.Tx.Outputs) != len(cb.Tx.Tx.TxIn) {
			c.Violate("spent-output", "count", "HandleTx for %s carries %d spent outputs for %d inputs", shortHash(txid), len(cb.Tx.Outputs), len(cb.Tx.Tx.TxIn))
		} else {
			for i, in := range cb.Tx.Tx.TxIn {
				got := cb.Tx.Outputs[i]
				if in.PreviousOutPoint.Index == wire.MaxPrevOutIndex {
					continue
				}
				want := ns.TxW.OutputOf(in.PreviousOutPoint)
				if want == nil || got == nil || got.Value != want.Value || !bytes.Equal(got.LockingScript, want.LockingScript) {
					src := "fetcher"
					if _, isTx := ns.TxW.Txs[in.PreviousOutPoint.Hash]; isTx {
						src = "parent-tx"
					}
					c.Violate("spent-output", "source="+src, "HandleTx for %s: output for input %d is %v, the outpoint %s pays %v", shortHash(txid), i, got, in.PreviousOutPoint.String(), want)
				}
			}
		}
		if h := e.hs[txid]; h != nil && seen[txid] > 1 {
			c.Violate("dup-new", "arrival="+e.arrivalClass(h), "%s was delivered as a new transaction %d times (second at t=%v); histories: %v", e.label(h.spec), seen[txid], cb.At, h.spec.deliveries)
		}
	}
	// both handlers receive the same notifications (their relative order across the node's
	// processing threads is not part of the statement)
	ka := func(l []Callback) []string {
		var out []string
		for _, cb := range l {
			switch cb.Kind {
			case "tx":
				out = append(out, "tx:"+shortHash(*cb.Tx.Tx.TxHash())+stateStr(cb.Tx.State))
			case "update":
				out = append(out, "up:"+shortHash(cb.Update.TxID)+stateStr(cb.Update.State))
			}
		}
		sort.Strings(out)
		return out
	}
	sa, sb := ka(ns.Rec.Log), ka(ns.Rec2.Log)
	if fmt.Sprint(sa) != fmt.Sprint(sb) {
		c.Violate("handlers-differ", "multiset", "the two registered handlers received different notifications: %v vs %v", sa, sb)
	}
	// completeness
	finalChain := map[bitcoin.Hash32]bool{}
	lh := ns.Node.LastHeight(ns.ctx())
	for h := ns.Start.Height; h <= lh; h++ {
		if hash, err := ns.Node.Hash(ns.ctx(), h); err == nil {
			finalChain[*hash] = true
		}
	}
	for _, h := range e.hs {
		ts := h.spec
		if !ts.relevant {
			continue
		}
		must := ""
		if h.localAt >= 0 && tr.readyThroughout(h.localAt-200*time.Millisecond, h.localAt+time.Second) {
			must = "submitted locally"
		}
		for _, is := range tr.issued {
			if is.tx != ts || !is.ok || is.conn == nil || is.d.kind != "tx" {
				continue
			}
			at := consumedAt(is.conn, is.endOff)
			if ts.outageUntil > 0 && !is.conn.P.Trusted && at < tr.origin+ts.outageUntil+500*time.Millisecond {
				// pushed by an untrusted peer while its inputs could not be fetched: the node
				// forgets it (and must handle every later arrival as the first)
				c.Probe("untrusted_push_during_fetch_outage")
				continue
			}
			if at >= 0 && tr.readyThroughout(at-200*time.Millisecond, at+time.Second) {
				must = fmt.Sprintf("body received from %s at t=%v while in sync", is.d.src, at)
			}
		}
		if ts.inBlock >= 0 {
			if blk := tr.mined[ts.inBlock]; blk != nil && finalChain[blk.Hash] {
				must = fmt.Sprintf("contained in processed block %s", blk)
			}
		}
		if must != "" && len(h.newCalls) == 0 {
			c.Violate("missing", "arrival="+e.arrivalClass(h), "relevant %s (%s) was never delivered as a new transaction; deliveries %v", e.label(ts), must, ts.deliveries)
		}
		if len(h.newCalls) > 0 {
			c.Probe("tx_delivered")
			if h.newCalls[0].Tx.State.MerkleProof == nil {
				c.Probe("tx_delivered_unconfirmed")
			}
		}
	}
}

// C04 (proof part, applied to every run that has blocks) -------------------------------------------

func (e *txEval) checkProofs(c *Ctx) {
	tr := e.tr
	ns := tr.ns
	check := func(txid bitcoin.Hash32, st client.TxState, at time.Duration, what string) {
		p := st.MerkleProof
		if p == nil {
			return
		}
		c.Probe("proof_checked")
		blk := ns.Tree.ByHash[*p.BlockHeader.BlockHash()]
		if blk == nil {
			c.Violate("proof-header", what, "%s for %s carries a proof for an unknown block header", what, shortHash(txid))
			return
		}
		root, ok := verifyProof(txid, p)
		if !ok {
			c.Violate("proof-invalid", what, "%s for %s: independent verification of the proof yields root %s, header of block %s has %s (index %d, path %d, dup %v)", what, shortHash(txid), shortHash(root), blk, shortHash(p.BlockHeader.MerkleRoot), p.Index, len(p.Path), p.DuplicatedIndexes)
		}
		// true index
		idx := -1
		for i, tx := range blk.Txs {
			if *tx.TxHash() == txid {
				idx = i
			}
		}
		if idx < 0 {
			c.Violate("proof-wrong-block", what, "%s for %s claims block %s which does not contain it", what, shortHash(txid), blk)
		} else if uint64(idx) != p.Index {
			c.Violate("proof-index", what, "%s for %s: index %d, true position %d in block %s", what, shortHash(txid), p.Index, idx, blk)
		}
		if st.UnconfirmedDepth != 0 {
			c.Violate("proof-depth", what, "%s for %s has a proof and unconfirmed depth %d", what, shortHash(txid), st.UnconfirmedDepth)
		}
		// header the node holds at that height
		if hh, err := ns.Node.Hash(ns.ctx(), blk.Height); err == nil && *hh != blk.Hash {
			// the block may have been reorganised away since; only judge when still on chain
			_ = hh
		}
	}
	for _, cb := range ns.Rec.Log {
		switch cb.Kind {
		case "tx":
			check(*cb.Tx.Tx.TxHash(), cb.Tx.State, cb.At, "HandleTx")
		case "update":
			check(cb.Update.TxID, cb.Update.State, cb.At, "HandleTxUpdate")
		}
	}
	// every relevant transaction of a processed block has a notification with a proof
	lh := ns.Node.LastHeight(ns.ctx())
	for b, blk := range tr.mined {
		hash, err := ns.Node.Hash(ns.ctx(), blk.Height)
		if err != nil || *hash != blk.Hash || blk.Height > lh {
			continue
		}
		for _, i := range tr.sc.blocks[b].txs {
			ts := tr.sc.txs[i]
			if !ts.relevant {
				continue
			}
			h := e.hs[ts.id]
			found := false
			for _, s := range h.states() {
				if s.st.MerkleProof != nil && *s.st.MerkleProof.BlockHeader.BlockHash() == blk.Hash {
					found = true
				}
			}
			if !found {
				kind := "seen-before"
				if len(h.newCalls) == 0 || h.firstBodyAt < 0 {
					kind = "first-seen-in-block"
				}
				c.Violate("confirm-missing", kind, "relevant %s is in processed block %s but no notification with a merkle proof for it was delivered", e.label(ts), blk)
			}
		}
	}
}

// C05 ---------------------------------------------------------------------------------------------

func (e *txEval) bothUnconfirmedTogether(x, y *txHistory) bool {
	tr := e.tr
	if x.firstBodyAt < 0 || y.firstBodyAt < 0 {
		return false
	}
	for _, h := range []*txHistory{x, y} {
		if !tr.readyThroughout(h.firstBodyAt-200*time.Millisecond, h.firstBodyAt+time.Second) {
			return false
		}
	}
	later := x.firstBodyAt
	if y.firstBodyAt > later {
		later = y.firstBodyAt
	}
	// not judged when either was confirmed around or before the arrival of the other
	if e.minedBefore(x.spec, later+3*time.Second) || e.minedBefore(y.spec, later+3*time.Second) {
		return false
	}
	// nor when either had already lost to a confirmed transaction (cancelled and evicted)
	if e.evictedBefore(x.spec, later+3*time.Second) || e.evictedBefore(y.spec, later+3*time.Second) {
		return false
	}
	return true
}

func (e *txEval) checkConflicts(c *Ctx) {
	hs := e.hs
	specs := e.tr.sc.txs
	for i, a := range specs {
		for _, b := range specs[i+1:] {
			if !sharesOutpoint(a, b) {
				continue
			}
			ha, hb := hs[a.id], hs[b.id]
			if !e.bothUnconfirmedTogether(ha, hb) {
				continue
			}
			c.Probe("conflict_pair_seen")
			for _, h := range []*txHistory{ha, hb} {
				if !h.spec.relevant || len(h.newCalls) == 0 {
					continue
				}
				other := hb
				if h == hb {
					other = ha
				}
				flagged := false
				for _, s := range h.states() {
					if s.st.UnSafe {
						flagged = true
					}
				}
				order := "arrived-first"
				if h.firstBodyAt > other.firstBodyAt {
					order = "arrived-second"
				}
				if !flagged {
					c.Violate("unsafe-missing", order+"/other-relevant="+fmt.Sprint(other.spec.relevant),
						"%s and %s spend a common outpoint and were both processed while unconfirmed (bodies at t=%v and t=%v) but %s was never reported unsafe; its states: %s",
						e.label(ha.spec), e.label(hb.spec), ha.firstBodyAt, hb.firstBodyAt, e.label(h.spec), e.stateList(h))
				}
			}
		}
	}
	// never flagged without a conflicting transaction having arrived
	for _, h := range hs {
		var firstUnsafe *time.Duration
		for _, s := range h.states() {
			if s.st.UnSafe && firstUnsafe == nil {
				t := s.at
				firstUnsafe = &t
			}
		}
		if firstUnsafe == nil {
			continue
		}
		justified := false
		for _, o := range specs {
			if o == h.spec || !sharesOutpoint(o, h.spec) {
				continue
			}
			oh := hs[o.id]
			if oh.firstBodyAt >= 0 && oh.firstBodyAt <= *firstUnsafe {
				justified = true
			}
			if o.inBlock >= 0 {
				if at, ok := e.tr.minedAt[o.inBlock]; ok && at <= *firstUnsafe {
					justified = true
				}
			}
		}
		if !justified {
			var sb strings.Builder
			for _, o := range specs {
				fmt.Fprintf(&sb, " %s spends", e.label(o))
				for _, op := range o.spends {
					fmt.Fprintf(&sb, " %s:%d", shortHash(op.Hash), op.Index)
				}
				fmt.Fprintf(&sb, " (body at %v);", hs[o.id].firstBodyAt)
			}
			c.Violate("false-conflict", "arrival="+e.arrivalClass(h), "%s was reported unsafe at t=%v although no transaction sharing an outpoint with it had reached the node; states: %s; transactions:%s", e.label(h.spec), *firstUnsafe, e.stateList(h), sb.String())
		}
	}
}

func (e *txEval) stateList(h *txHistory) string {
	s := ""
	for _, st := range h.states() {
		k := "upd"
		if st.isNew {
			k = "new"
		}
		s += fmt.Sprintf("[%s@%v %s] ", k, st.at, stateStr(st.st))
	}
	return s
}

// C06 ---------------------------------------------------------------------------------------------

func (e *txEval) checkCancel(c *Ctx) {
	tr := e.tr
	ns := tr.ns
	lh := ns.Node.LastHeight(ns.ctx())
	for b, blk := range tr.mined {
		hash, err := ns.Node.Hash(ns.ctx(), blk.Height)
		processed := err == nil && *hash == blk.Hash && blk.Height <= lh
		for _, wi := range tr.sc.blocks[b].txs {
			winner := tr.sc.txs[wi]
			for _, loser := range tr.sc.txs {
				if loser == winner || !sharesOutpoint(loser, winner) || loser.inBlock >= 0 || !loser.relevant {
					continue
				}
				lhst := e.hs[loser.id]
				if len(lhst.newCalls) == 0 || lhst.newCalls[0].At > tr.minedAt[b]-time.Second {
					continue // not delivered (well) before the block
				}
				if lhst.newCalls[0].Tx.State.MerkleProof != nil {
					continue
				}
				c.Probe("confirmed_double_spend")
				if !processed {
					continue // judged by chain-stalled below
				}
				ok := false
				for _, s := range lhst.states() {
					if s.st.Cancelled && s.st.UnSafe {
						ok = true // possibly cancelled earlier by another confirmed conflict
					}
				}
				wseen := "winner-seen-before"
				if e.hs[winner.id].firstBodyAt < 0 || e.hs[winner.id].firstBodyAt > tr.minedAt[b] {
					wseen = "winner-first-seen-in-block"
				}
				if !ok {
					c.Violate("cancel-missing", wseen+"/winner-relevant="+fmt.Sprint(winner.relevant),
						"block %s confirmed %s which spends an outpoint also spent by delivered unconfirmed %s, but no cancelled+unsafe update for the latter followed; its states: %s",
						blk, e.label(winner), e.label(loser), e.stateList(lhst))
				}
			}
		}
	}
	// the chain keeps advancing through every mined block
	best := ns.Trusted.Best
	if lh != best.Height {
		c.Violate("chain-stalled", stallKey(ns), "after the scenario the node is at height %d, the peer at %d (run returned=%v err=%v)", lh, best.Height, ns.RunDone, ns.RunErr)
	} else if hh, err := ns.Node.Hash(ns.ctx(), lh); err != nil || *hh != best.Hash {
		c.Violate("chain-stalled", "wrong-tip", "after the scenario the node's tip differs from the peer's")
	}
}

// C07 ---------------------------------------------------------------------------------------------

func (e *txEval) checkSafe(c *Ctx, liveness bool) {
	tr := e.tr
	delay := time.Duration(tr.sc.safeDelay) * time.Millisecond
	for _, h := range e.hs {
		sts := h.states()
		sawBad := false
		safeTransitions := 0
		var firstSafe *time.Duration
		prevSafe := false
		for i, s := range sts {
			if s.st.Safe && s.st.UnSafe {
				c.Violate("safe-and-unsafe", notifKind(s.isNew), "%s: a notification has safe and unsafe both set: %s", e.label(h.spec), e.stateList(h))
			}
			if s.st.Cancelled && !s.st.UnSafe {
				c.Violate("cancelled-not-unsafe", notifKind(s.isNew), "%s: cancelled without unsafe: %s", e.label(h.spec), e.stateList(h))
			}
			if sawBad && s.st.Safe {
				c.Violate("safe-after-unsafe", notifKind(s.isNew)+confirmedKind(s.st), "%s was reported unsafe or cancelled and a later notification says safe: %s", e.label(h.spec), e.stateList(h))
			}
			if s.st.UnSafe || s.st.Cancelled {
				sawBad = true
			}
			if s.st.Safe && s.st.MerkleProof == nil {
				if i == 0 || !prevSafe {
					safeTransitions++
				}
				if firstSafe == nil {
					t := s.at
					firstSafe = &t
				}
				if i > 0 && prevSafe && !s.isNew && sts[i-1].st.MerkleProof == nil && sts[i-1].st == s.st {
					c.Violate("safe-twice", "identical-update", "%s: the same unconfirmed safe update was delivered twice: %s", e.label(h.spec), e.stateList(h))
				}
			}
			prevSafe = s.st.Safe
		}
		if safeTransitions > 1 {
			c.Violate("safe-twice", "transition", "%s was reported safe %d times while unconfirmed: %s", e.label(h.spec), safeTransitions, e.stateList(h))
		}
		if firstSafe != nil && h.localAt < 0 {
			c.Probe("safe_reported")
			ts := *firstSafe
			if h.trustedAt < 0 || h.trustedAt > ts {
				c.Violate("safe-unvouched", "arrival="+e.arrivalClass(h), "%s was reported safe at t=%v but the trusted peer had not announced or sent it (trusted sighting: %v); deliveries %v", e.label(h.spec), ts, h.trustedAt, h.spec.deliveries)
			}
			if h.firstBodyAt >= 0 && ts-h.firstBodyAt < delay {
				c.Violate("safe-early", fmt.Sprintf("delay=%dms", tr.sc.safeDelay), "%s was reported safe %v after it was first seen; the configured safe delay is %v", e.label(h.spec), ts-h.firstBodyAt, delay)
			}
			for _, o := range tr.sc.txs {
				if o == h.spec || !sharesOutpoint(o, h.spec) {
					continue
				}
				oh := e.hs[o.id]
				restartBetween := false
				for _, rt := range tr.restarts {
					lo, hi := oh.firstBodyAt, h.firstBodyAt
					if lo > hi {
						lo, hi = hi, lo
					}
					if (rt > oh.firstBodyAt && rt < ts) || (rt > lo && rt < hi) {
						restartBetween = true // the double-spend index is documented as non-persistent
					}
				}
				if restartBetween {
					continue
				}
				// a body read from a connection the node was just giving up (its own reconnect after
				// the trusted peer went away closes every connection) was read, not processed
				dying := false
				for _, ce := range tr.ns.ConnEnds {
					if oh.firstBodyConn != nil && ce.Conn == oh.firstBodyConn && ce.At >= oh.firstBodyAt && ce.At < oh.firstBodyAt+500*time.Millisecond {
						dying = true
					}
				}
				for _, d := range tr.drops {
					if oh.firstBodyAt >= d && oh.firstBodyAt < d+2*time.Second {
						dying = true // the node is between losing the trusted peer and resetting its state
					}
				}
				if dying {
					continue
				}
				if oh.firstBodyAt >= 0 && oh.firstBodyAt < ts-time.Second && tr.readyThroughout(oh.firstBodyAt-200*time.Millisecond, oh.firstBodyAt+time.Second) && !e.minedBefore(o, ts) && !e.evictedBefore(o, ts+3*time.Second) {
					c.Violate("safe-despite-conflict", "conflict-arrived-before-safe", "%s was reported safe at t=%v although conflicting %s had been received at t=%v", e.label(h.spec), ts, e.label(o), oh.firstBodyAt)
				}
			}
		}
		// bounded liveness
		if liveness && h.spec.relevant && len(h.newCalls) > 0 && h.localAt < 0 && h.trustedAt >= 0 && !tr.sc.slowHandler && len(tr.restarts) == 0 {
			if h.newCalls[0].Tx.State.MerkleProof != nil {
				continue
			}
			conflictFree := true
			for _, o := range tr.sc.txs {
				if o != h.spec && sharesOutpoint(o, h.spec) {
					conflictFree = false
				}
			}
			t1 := h.newCalls[0].At
			if h.trustedAt > t1 {
				t1 = h.trustedAt
			}
			bound := delay + 30*time.Second
			if !conflictFree || e.minedBefore(h.spec, t1+bound+time.Second) {
				continue
			}
			if !tr.readyThroughout(t1, t1+bound) {
				continue
			}
			c.Probe("safe_expected")
			ok := false
			for _, s := range sts {
				if s.st.Safe && s.at <= t1+bound {
					ok = true
				}
			}
			if !ok {
				c.Violate("safe-late", "arrival="+e.arrivalClass(h), "%s is vouched by the trusted peer (t=%v), has no conflict and the node stayed in sync, but no safe report followed within %v of t=%v; states: %s", e.label(h.spec), h.trustedAt, bound, t1, e.stateList(h))
			}
		}
	}
}

func notifKind(isNew bool) string {
	if isNew {
		return "HandleTx"
	}
	return "HandleTxUpdate"
}

func confirmedKind(s client.TxState) string {
	if s.MerkleProof != nil {
		return "/confirmed"
	}
	return "/unconfirmed"
}

// runTxCheck is the common body of the transaction-level checks.
func runTxCheck(c *Ctx, o txGenOpts, eval func(e *txEval)) {
	ns := NewNodeSim(c)
	if o.prepare != nil {
		o.prepare(ns)
	}
	sc := genTxScenario(c, ns.TxW, o)
	tr := newTxRun(c, sc, ns)
	c.Res.Summary = sc.String()
	done := false
	simrt.Go("driver", func() {
		defer func() { done = true; tr.done = true }()
		tr.drive()
		if c.Res.Inconclusive != "" {
			return
		}
		simrt.NoPreempt(func() { // oracle queries draw nothing from the tape
			e := newTxEval(tr)
			eval(e)
		})
		c.Res.Nontrivial = len(sc.txs) > 1 || len(sc.blocks) > 0
	})
	ns.S.Run(func() bool { return done })
	if !done && len(c.Res.Violations) == 0 && c.Res.Inconclusive == "" && !ns.S.Zeno && !ns.S.StepCap {
		c.Res.Inconclusive = "driver-stuck"
	}
	reportPanics(c, ns)
}

var txReal = []string{"internal/spynode.Node (Run, tx processor, block processor, delay checker, untrusted node manager, UntrustedNode)", "internal/handlers (trusted and untrusted)", "internal/state (State, MemPool, TxTracker)", "internal/storage (TxRepository, tx state records, BlockRepository)", "pkg/wire framing"}
var txStub = []string{"OutputFetcher/TxFetcher (world model)", "logger.NewWaitingWarning (inert)", "transport (simnet)", "disk (simdisk)", "clock (synctest)", "goroutine scheduling (simrt baton)", "trusted and untrusted peers (scripted models)"}

func init() {
	Register(&Check{Prop: "C03", Sub: "delivery", Weight: 1, Real: txReal, Stub: txStub,
		Req:  []string{"in_sync_reached", "tx_delivered", "tx_delivered_unconfirmed"},
		Rule: "transaction set (relevant or not, chained or independent), per-transaction arrival history (trusted/untrusted inv or body, local submission, first seen in a block, duplicates, silent peers, a first push by an untrusted peer while the output service cannot answer for its inputs) and schedule drawn from the tape; non-trivial = more than one transaction or at least one block.",
		Run: func(c *Ctx) {
			runTxCheck(c, txGenOpts{conflicts: 0, blocks: true, untrusted: true, chains: true, local: true, silentPeers: true, maxTxs: 12, outage: true},
				func(e *txEval) { e.checkDelivery(c) })
		}})
	Register(&Check{Prop: "C04", Sub: "proofs-in-tx-histories", Weight: 1, Real: txReal, Stub: txStub,
		Req:  []string{"in_sync_reached", "proof_checked", "confirmed_after_unsafe"},
		Rule: "the transaction scenario with double-spend attempts, chains, untrusted sightings, a possibly lost trusted connection and blocks confirming previously seen (safe, unsafe, never seen) transactions; every notification carrying a proof is verified independently (root, true index, containing block, depth zero) and every relevant transaction of a processed block has one.",
		Run: func(c *Ctx) {
			runTxCheck(c, txGenOpts{conflicts: 1, blocks: true, untrusted: true, chains: true, maxTxs: 8, dropConn: true},
				func(e *txEval) {
					e.checkProofs(c)
					for _, h := range e.hs {
						unsafe := false
						for _, s := range h.states() {
							if s.st.UnSafe && s.st.MerkleProof == nil {
								unsafe = true
							}
							if unsafe && s.st.MerkleProof != nil {
								c.Probe("confirmed_after_unsafe")
							}
						}
					}
				})
		}})
	Register(&Check{Prop: "C05", Sub: "conflicts-node", Weight: 1, Real: txReal, Stub: txStub,
		Req:  []string{"in_sync_reached", "conflict_pair_seen"},
		Rule: "transaction sets with k-way and partial outpoint conflicts, arrival orders and sources, confirming blocks and schedule drawn from the tape; non-trivial = more than one transaction.",
		Run: func(c *Ctx) {
			runTxCheck(c, txGenOpts{conflicts: 2, blocks: true, untrusted: true, chains: true, maxTxs: 8},
				func(e *txEval) {
					e.checkConflicts(c)
					e.checkSafe(c, false) // "neither is subsequently reported safe"
				})
		}})
	Register(&Check{Prop: "C06", Sub: "confirmed-double-spend", Weight: 1, Real: txReal, Stub: txStub,
		Req:  []string{"in_sync_reached", "confirmed_double_spend"},
		Rule: "unconfirmed transactions plus blocks confirming conflicting transactions drawn from the tape; non-trivial = at least one block.",
		Run: func(c *Ctx) {
			runTxCheck(c, txGenOpts{conflicts: 2, blocks: true, untrusted: true, maxTxs: 7, dropConn: true},
				func(e *txEval) {
					e.checkCancel(c)
					e.checkProofs(c)
					e.checkSafe(c, false) // a cancelled transaction is never reported safe afterwards
					if len(e.tr.drops) > 0 {
						c.Probe("connection_lost_once")
					}
				})
		}})
	Register(&Check{Prop: "C07", Sub: "safe-trajectory", Weight: 1, Real: txReal, Stub: txStub,
		Req:  []string{"in_sync_reached", "safe_reported", "safe_expected"},
		Rule: "histories mixing trusted/untrusted sightings, conflicts around the delay expiry, confirmations and local submissions, with the safe delay drawn per run; non-trivial = more than one transaction or a block.",
		Run: func(c *Ctx) {
			runTxCheck(c, txGenOpts{conflicts: 1, blocks: true, untrusted: true, local: true, maxTxs: 8},
				func(e *txEval) { e.checkSafe(c, true) })
		}})
	Register(&Check{Prop: "C07", Sub: "safe-trajectory-restart", Weight: 1, Real: txReal, Stub: txStub,
		Req:  []string{"in_sync_reached", "safe_reported"},
		Rule: "the same histories with a clean stop and a new node on the same disk at a tape-chosen instant (half of the runs): 'safe at most once' and 'never safe after unsafe' also hold across the restart.",
		Run: func(c *Ctx) {
			runTxCheck(c, txGenOpts{conflicts: 1, blocks: true, untrusted: true, local: true, maxTxs: 8, restart: true},
				func(e *txEval) {
					e.checkSafe(c, false)
					if len(e.tr.restarts) > 0 {
						c.Probe("restarted")
					}
				})
		}})
}
