//go:build go1.26

package verifsim

import (
	"verif.local/simrt"
	"github.com/anishathalye/porcupine"
	"time"
	"context"
	"fmt"
	"strings"

	"github.com/tokenized/pkg/bitcoin"
	"github.com/tokenized/pkg/wire"
	"github.com/tokenized/spynode/internal/platform/config"
	"github.com/tokenized/spynode/internal/spynode"
	"github.com/tokenized/spynode/internal/storage"
)

// ---- C09: block store vs. the abstract list of headers -----------------------------------------

type c09model struct {
	hs      []wire.BlockHeader
	hashes  []bitcoin.Hash32
	removed []bitcoin.Hash32 // hashes reverted away and not re-added
	useNext func() bool      // add through AddNext (block processing path) instead of Add
}

func (m *c09model) tip() int { return len(m.hs) - 1 }

type c09sut struct {
	disk *SimDisk
	node *spynode.Node
	repo *storage.BlockRepository
	ctx  context.Context
}

func newC09sut(disk *SimDisk) *c09sut {
	cfg := config.Config{Net: bitcoin.MainNet}
	n := spynode.NewNode(cfg, disk, nil, nil)
	return &c09sut{disk: disk, node: n, repo: n.VerifBlocks(), ctx: quietCtx()}
}

// guard runs f and converts a panic into a description.
func guard(f func()) (p string) {
	defer func() {
		if r := recover(); r != nil {
			p = fmt.Sprint(r)
		}
	}()
	f()
	return ""
}

// c09compare checks queries against the model at a set of heights. Returns clause,key,msg.
func c09compare(s *c09sut, m *c09model, heights []int, where string) (string, string, string) {
	tip := m.tip()
	if got := s.repo.LastHeight(); got != tip {
		return "query-mismatch", where + "/LastHeight", fmt.Sprintf("LastHeight = %d, model %d (%s)", got, tip, where)
	}
	var lh *bitcoin.Hash32
	if p := guard(func() { lh = s.repo.LastHash() }); p != "" {
		return "panic", where + "/LastHash", "LastHash panicked: " + p
	}
	if lh == nil || *lh != m.hashes[tip] {
		return "query-mismatch", where + "/LastHash", fmt.Sprintf("LastHash = %v, model %s at height %d (%s)", lh, shortHash(m.hashes[tip]), tip, where)
	}
	for _, h := range heights {
		class := "in-range"
		if h < 0 {
			class = fmt.Sprintf("h=%d", h)
			if h < -2 {
				class = "h<-2"
			}
		} else if h > tip {
			class = "h>tip"
		}
		// Hash
		var hash *bitcoin.Hash32
		var err error
		if p := guard(func() { hash, err = s.repo.Hash(s.ctx, h) }); p != "" {
			return "panic", "Hash/" + class, fmt.Sprintf("Hash(%d) panicked with tip %d: %s (%s)", h, tip, p, where)
		}
		if h >= 0 && h <= tip {
			if err != nil || hash == nil || *hash != m.hashes[h] {
				return "query-mismatch", where + "/Hash", fmt.Sprintf("Hash(%d) = %v err=%v, model %s, tip %d (%s)", h, hash, err, shortHash(m.hashes[h]), tip, where)
			}
		} else if err == nil && hash != nil {
			return "out-of-range", "Hash/" + class, fmt.Sprintf("Hash(%d) with tip %d returned %s and no error (%s)", h, tip, shortHash(*hash), where)
		}
		// Header (-1 documented as tip)
		var hdr *wire.BlockHeader
		if p := guard(func() { hdr, err = s.repo.Header(s.ctx, h) }); p != "" {
			return "panic", "Header/" + class, fmt.Sprintf("Header(%d) panicked with tip %d: %s (%s)", h, tip, p, where)
		}
		eh := h
		if h == -1 {
			eh = tip
		}
		if eh >= 0 && eh <= tip {
			if err != nil || hdr == nil || *hdr.BlockHash() != m.hashes[eh] {
				return "query-mismatch", where + "/Header", fmt.Sprintf("Header(%d) wrong (err=%v), tip %d (%s)", h, err, tip, where)
			}
		} else if err == nil && hdr != nil {
			return "out-of-range", "Header/" + class, fmt.Sprintf("Header(%d) with tip %d returned a header and no error (%s)", h, tip, where)
		}
		// Time
		var tm uint32
		if p := guard(func() { tm, err = s.repo.Time(s.ctx, h) }); p != "" {
			return "panic", "Time/" + class, fmt.Sprintf("Time(%d) panicked with tip %d: %s (%s)", h, tip, p, where)
		}
		if h >= 0 && h <= tip {
			if err != nil || tm != m.hs[h].Timestamp {
				return "query-mismatch", where + "/Time", fmt.Sprintf("Time(%d) = %d err=%v, model %d (%s)", h, tm, err, m.hs[h].Timestamp, where)
			}
		} else if err == nil && tm != 0 {
			return "out-of-range", "Time/" + class, fmt.Sprintf("Time(%d) with tip %d returned %d and no error (%s)", h, tip, tm, where)
		}
		// by hash
		if h >= 0 && h <= tip {
			hh := m.hashes[h]
			got, ok := s.repo.Height(&hh)
			if !ok || got != h || !s.repo.Contains(&hh) {
				return "inverse", where + "/Height", fmt.Sprintf("Height(hash of %d) = %d,%v; Contains=%v (%s)", h, got, ok, s.repo.Contains(&hh), where)
			}
		}
	}
	for _, rh := range m.removed {
		x := rh
		if hgt, ok := s.repo.Height(&x); ok || s.repo.Contains(&x) {
			return "inverse", where + "/removed-hash-still-known", fmt.Sprintf("hash %s was reverted away but Height = %d,%v (%s)", shortHash(rh), hgt, ok, where)
		}
	}
	return "", "", ""
}

func c09getHeaders(s *c09sut, m *c09model, h, count int, where string) (string, string, string) {
	tip := m.tip()
	var res interface{}
	var err error
	var hdrs []*wire.BlockHeader
	var start uint32
	if p := guard(func() {
		r, e := s.node.GetHeaders(s.ctx, h, count)
		err = e
		res = r
		if r != nil {
			hdrs = r.Headers
			start = r.StartHeight
		}
	}); p != "" {
		return "panic", "GetHeaders", fmt.Sprintf("GetHeaders(%d,%d) panicked with tip %d: %s", h, count, tip, p)
	}
	_ = res
	class := "h>=0"
	var want []bitcoin.Hash32
	wantStart := h
	switch {
	case h == -1:
		class = "h=-1"
		n := count
		if n > tip+1 {
			n = tip + 1
		}
		wantStart = tip - n + 1
		want = m.hashes[wantStart : tip+1]
	case h >= 0 && h <= tip:
		end := h + count
		if end > tip+1 {
			end = tip + 1
			class = "h>=0,truncated-at-tip"
		}
		want = m.hashes[h:end]
	default:
		class = "out-of-range"
		if err == nil && len(hdrs) > 0 {
			return "out-of-range", "GetHeaders/" + class, fmt.Sprintf("GetHeaders(%d,%d) with tip %d returned %d headers (%s)", h, count, tip, len(hdrs), where)
		}
		return "", "", ""
	}
	if count <= 0 {
		return "", "", ""
	}
	if err != nil {
		return "range-request", "GetHeaders/" + class, fmt.Sprintf("GetHeaders(%d,%d) with tip %d failed: %v (%s)", h, count, tip, err, where)
	}
	if len(hdrs) != len(want) {
		return "range-request", "GetHeaders/" + class, fmt.Sprintf("GetHeaders(%d,%d) with tip %d returned %d headers, expected %d (%s)", h, count, tip, len(hdrs), len(want), where)
	}
	for i := range want {
		if *hdrs[i].BlockHash() != want[i] {
			return "range-request", "GetHeaders/" + class + "/content", fmt.Sprintf("GetHeaders(%d,%d): header %d is not the header at height %d (%s)", h, count, i, wantStart+i, where)
		}
	}
	if len(want) > 0 && int(start) != wantStart {
		return "range-request", "GetHeaders/" + class + "/start-height", fmt.Sprintf("GetHeaders(%d,%d) StartHeight = %d, expected %d (%s)", h, count, start, wantStart, where)
	}
	return "", "", ""
}

func (m *c09model) add(s *c09sut, salt *int) error {
	*salt++
	prev := m.hashes[m.tip()]
	hdr := wire.BlockHeader{Version: 1, PrevBlock: prev, MerkleRoot: dsha([]byte(fmt.Sprint("m", *salt))),
		Timestamp: uint32(1500000000 + *salt), Bits: 0x1d00ffff, Nonce: uint32(*salt)}
	if m.useNext != nil && m.useNext() {
		// the path block processing takes: add only if it links to the tip
		ok, err := s.repo.AddNext(s.ctx, &hdr)
		if err != nil {
			return err
		}
		if !ok {
			return fmt.Errorf("AddNext refused a header whose previous hash is the tip (height %d)", m.tip())
		}
		// a header that does not link to the (new) tip is refused and changes nothing
		if m.tip() >= 1 && *salt%3 == 0 {
			stale := wire.BlockHeader{Version: 1, PrevBlock: m.hashes[m.tip()-1], MerkleRoot: dsha([]byte(fmt.Sprint("stale", *salt))),
				Timestamp: uint32(1500000000 + *salt), Bits: 0x1d00ffff, Nonce: uint32(*salt)}
			if ok, err := s.repo.AddNext(s.ctx, &stale); ok || err != nil {
				return fmt.Errorf("AddNext accepted a header that does not link to the tip (ok=%v err=%v)", ok, err)
			}
		}
	} else if err := s.repo.Add(s.ctx, &hdr); err != nil {
		return err
	}
	m.hs = append(m.hs, hdr)
	hh := *hdr.BlockHash()
	m.hashes = append(m.hashes, hh)
	return nil
}

func interestingHeights(c *Ctx, tip int) []int {
	set := map[int]bool{-2: true, -1: true, 0: true, 1: true, tip - 1: true, tip: true, tip + 1: true, tip + 2: true, -3 - int(c.Scen.Choose(2000)): true}
	for b := 1000; b <= tip+1000; b += 1000 {
		for d := -2; d <= 2; d++ {
			set[b+d] = true
		}
	}
	for i := 0; i < 6; i++ {
		set[int(c.Scen.Choose(uint32(tip+3)))] = true
	}
	out := make([]int, 0, len(set))
	for h := range set {
		out = append(out, h)
	}
	// deterministic order
	for i := 1; i < len(out); i++ {
		for j := i; j > 0 && out[j] < out[j-1]; j-- {
			out[j], out[j-1] = out[j-1], out[j]
		}
	}
	return out
}

func biasedHeight(c *Ctx, tip int) int {
	t := c.Scen
	switch t.Choose(8) {
	case 0:
		return tip
	case 1:
		return tip - 1 - int(t.Choose(3))
	case 2, 3:
		k := int(t.Choose(uint32(tip/1000+1))) * 1000
		return k - 2 + int(t.Choose(5))
	case 4:
		return int(t.Choose(3))
	default:
		return int(t.Choose(uint32(tip + 1)))
	}
}

// runC09case runs one generated operation sequence. Returns clause,key,msg and a description.
func runC09case(c *Ctx, withFaults bool) (string, string, string, string) {
	t := c.Scen
	disk := NewSimDisk()
	disk.RemoveMissingErr = t.Bool(1, 2)
	s := newC09sut(disk)
	var desc strings.Builder
	fmt.Fprintf(&desc, "removeMissingErr=%v; ", disk.RemoveMissingErr)
	if err := s.repo.Load(s.ctx); err != nil {
		return "load-error", "initial", err.Error(), desc.String()
	}
	if t.Bool(1, 4) {
		// a second load on the same object with nothing saved yet (AddPeer or Scan followed by Run)
		if err := s.repo.Load(s.ctx); err != nil {
			return "load-error", "second-load-empty-disk", err.Error(), desc.String()
		}
		desc.WriteString("load-again-on-empty-disk; ")
		c.Probe("load_twice_empty_disk")
	}
	g := mainNetGenesisHeader()
	m := &c09model{hs: []wire.BlockHeader{g}, hashes: []bitcoin.Hash32{*g.BlockHash()}}
	switch t.Choose(3) {
	case 0: // headers arrive through Add (header sync before the start block)
	case 1: // through AddNext (block processing)
		m.useNext = func() bool { return true }
		desc.WriteString("adds-via-AddNext; ")
	default:
		m.useNext = func() bool { return t.Bool(1, 2) }
		desc.WriteString("adds-via-Add-or-AddNext; ")
	}
	salt := int(t.Choose(1 << 20))
	// initial bulk
	n0 := []int{0, 1, 3, 30, 997, 998, 999, 1000, 1001, 1002, 1500, 1998, 1999, 2000, 2001, 2500, 2999, 3000, 3001}[t.Choose(19)]
	if c.Tier == "quick" && n0 > 2100 && t.Bool(2, 3) {
		n0 = 1000 + int(t.Choose(4))
	}
	for i := 0; i < n0; i++ {
		if err := m.add(s, &salt); err != nil {
			return "op-error", "add", err.Error(), desc.String()
		}
	}
	fmt.Fprintf(&desc, "add*%d; ", n0)
	nops := 3 + int(t.Choose(14))
	for i := 0; i < nops; i++ {
		tip := m.tip()
		where := ""
		switch t.Choose(11) {
		case 0, 1:
			k := []int{1, 1, 2, 3, 7, 999, 1000, 1001}[t.Choose(8)]
			if c.Tier == "quick" && k > 10 && t.Bool(1, 2) {
				k = 2
			}
			for j := 0; j < k; j++ {
				if err := m.add(s, &salt); err != nil {
					return "op-error", "add", err.Error(), desc.String()
				}
			}
			where = fmt.Sprintf("add*%d", k)
		case 2, 3, 4:
			target := biasedHeight(c, tip)
			if target < 0 {
				target = 0
			}
			if target > tip {
				target = tip
			}
			saved := "unsaved"
			if t.Bool(1, 2) {
				if err := s.repo.Save(s.ctx); err != nil {
					return "op-error", "save", err.Error(), desc.String()
				}
				saved = "saved"
			}
			where = fmt.Sprintf("revert(%d) from %d (%s)", target, tip, saved)
			failAt := -1
			if withFaults && t.Bool(1, 2) {
				failAt = disk.OpCount + int(t.Choose(9)) // a revert across two files takes up to eight storage operations
				fa := failAt
				disk.FailOp = func(n int, kind, key string) error {
					if n == fa {
						c.FaultFired("F-disk-err")
						return ErrInjected
					}
					return nil
				}
				c.FaultConfigured("F-disk-err")
				where += fmt.Sprintf(" with disk op #%d failing", failAt-disk.OpCount)
			}
			var err error
			if p := guard(func() { err = s.repo.Revert(s.ctx, target) }); p != "" {
				return "panic", "Revert", fmt.Sprintf("%s panicked: %s", where, p), desc.String() + where
			}
			disk.FailOp = nil
			if err == nil {
				m.removed = append(m.removed, m.hashes[target+1:]...)
				if len(m.removed) > 40 {
					m.removed = m.removed[len(m.removed)-40:]
				}
				m.hs = m.hs[:target+1]
				m.hashes = m.hashes[:target+1]
				c.Probe("revert_ok")
				if target/1000 != tip/1000 {
					c.Probe("revert_across_file_boundary")
				}
				if saved == "unsaved" {
					c.Probe("revert_unsaved_newest_file")
				}
			} else if failAt < 0 {
				return "revert-failed", "Revert/" + saved + boundaryClass(target, tip), fmt.Sprintf("%s returned %v without any injected fault", where, err), desc.String() + where
			} else {
				c.Probe("revert_failed_by_fault")
				where += " -> error, store must be unchanged"
			}
		case 5:
			if err := s.repo.Save(s.ctx); err != nil {
				return "op-error", "save", err.Error(), desc.String()
			}
			where = "save"
		case 6:
			if err := s.repo.Save(s.ctx); err != nil {
				return "op-error", "save", err.Error(), desc.String()
			}
			s = newC09sut(disk)
			if err := s.repo.Load(s.ctx); err != nil {
				return "reload-mismatch", "load-fresh/error", fmt.Sprintf("Load on a fresh repository failed after save: %v", err), desc.String() + "save+load-fresh"
			}
			where = "save+load-fresh"
			c.Probe("reload_fresh")
		case 7:
			if err := s.repo.Save(s.ctx); err != nil {
				return "op-error", "save", err.Error(), desc.String()
			}
			if err := s.repo.Load(s.ctx); err != nil {
				return "reload-mismatch", "load-same/error", fmt.Sprintf("Load on the same repository failed after save: %v", err), desc.String() + "save+load-same"
			}
			where = "save+load-same"
			c.Probe("reload_same")
		case 8, 9:
			h := biasedHeight(c, tip)
			if t.Bool(1, 6) {
				h = -1
			}
			cnt := []int{1, 2, 5, 50, 999, 1000, 1001, 2100}[t.Choose(8)]
			where = fmt.Sprintf("GetHeaders(%d,%d)", h, cnt)
			if cl, key, msg := c09getHeaders(s, m, h, cnt, desc.String()+where); cl != "" {
				return cl, key, msg, desc.String() + where
			}
		default:
			where = "query"
		}
		desc.WriteString(where)
		desc.WriteString("; ")
		cls := where
		if j := strings.IndexAny(cls, "( *"); j > 0 {
			cls = cls[:j]
		}
		if strings.HasPrefix(where, "revert") {
			cls = "after-revert"
			if strings.Contains(where, "unsaved") {
				cls += "-unsaved"
			}
			if strings.Contains(where, "error, store must be unchanged") {
				cls = "after-failed-revert"
			}
		}
		if cl, key, msg := c09compare(s, m, interestingHeights(c, m.tip()), cls); cl != "" {
			return cl, key, msg + " after: " + desc.String(), desc.String()
		}
	}
	return "", "", "", desc.String()
}

func boundaryClass(target, tip int) string {
	if target/1000 != tip/1000 {
		return "/across-file"
	}
	return "/same-file"
}

func init() {
	real := []string{"internal/storage.BlockRepository (Load, Add, Revert, Save, Hash, Header, Time, Height, Contains, LastHash, LastHeight)", "internal/spynode.Node.GetHeaders"}
	stub := []string{"disk (simdisk: both remove-missing semantics, per-operation error injection)"}
	mk := func(sub string, faults bool, w int) {
		Register(&Check{Prop: "C09", Sub: sub, Weight: w, Real: real, Stub: stub,
			Rule: "operation sequences (bulk add to a size around a 1000-header file boundary, then add/revert/save/load/GetHeaders/query steps) drawn from the tape and compared with a slice-of-headers model after every step; non-trivial = at least 3 operations.",
			Run: func(c *Ctx) {
				cases := 8
				if c.Tier == "thorough" {
					cases = 40
				}
				for k := 0; k < cases; k++ {
					cl, key, msg, desc := runC09case(c, faults)
					c.NoteCase(true, desc)
					if k == 0 {
						c.Res.Summary = desc
					}
					if cl != "" {
						c.Violate(cl, key, "%s", msg)
						c.Res.Summary = desc
						return
					}
				}
				c.Res.Nontrivial = true
			}})
	}
	mk("blockstore-model", false, 2)
	mk("blockstore-model-diskfaults", true, 1)
	Register(&Check{Prop: "C09", Sub: "single-failure-positions", Weight: 1, Real: real, Stub: stub,
		Req:  []string{"store_single_failure_checked"},
		Rule: "histories of adds (Add/AddNext), saves and reverts around the 1000-header file boundaries (reverts across one and two files), run once per storage-operation position with that operation failing once; the caller saves and tries the step again; afterwards the running repository and a newly loaded one answer like the model at every checked height (shared with C10).",
		Run:  runC10storeFail})
	Register(&Check{Prop: "C09", Sub: "revert-boundary-sweep", Once: true, Real: real, Stub: stub,
		Run: func(c *Ctx) {
			// every revert target within +-2 of each file boundary and of the tip, for store
			// sizes around the boundaries, saved and unsaved, both remove-missing semantics
			sizes := []int{999, 1000, 1001, 1002, 2000, 2001}
			if c.Tier == "thorough" {
				sizes = []int{998, 999, 1000, 1001, 1002, 1003, 1999, 2000, 2001, 2002, 3001}
			}
			for _, size := range sizes {
				for _, rmErr := range []bool{false, true} {
					for _, saved := range []bool{false, true} {
						targets := map[int]bool{}
						for _, base := range []int{0, 1000, 2000, 3000, size} {
							for d := -2; d <= 2; d++ {
								if base+d >= 0 && base+d <= size {
									targets[base+d] = true
								}
							}
						}
						for target := range targets {
							disk := NewSimDisk()
							disk.RemoveMissingErr = rmErr
							s := newC09sut(disk)
							s.repo.Load(s.ctx)
							g := mainNetGenesisHeader()
							m := &c09model{hs: []wire.BlockHeader{g}, hashes: []bitcoin.Hash32{*g.BlockHash()}}
							salt := size*7 + target
							for i := 0; i < size; i++ {
								m.add(s, &salt)
							}
							if saved {
								s.repo.Save(s.ctx)
							}
							desc := fmt.Sprintf("size=%d removeMissingErr=%v saved=%v revert(%d)", size, rmErr, saved, target)
							c.NoteCase(true, desc)
							var err error
							if p := guard(func() { err = s.repo.Revert(s.ctx, target) }); p != "" {
								c.Violate("panic", "Revert", "%s panicked: %s", desc, p)
								continue
							}
							sv := "unsaved"
							if saved {
								sv = "saved"
							}
							if err != nil {
								c.Violate("revert-failed", "Revert/"+sv+boundaryClass(target, size), "%s returned %v", desc, err)
								continue
							}
							m.removed = append(m.removed, m.hashes[target+1:]...)
							if len(m.removed) > 8 {
								m.removed = m.removed[:8]
							}
							m.hs, m.hashes = m.hs[:target+1], m.hashes[:target+1]
							hs := []int{0, 1, target - 1, target, target + 1, 999, 1000, 1001, 1999, 2000, -1}
							cls := "after-revert"
							if !saved {
								cls += "-unsaved"
							}
							if cl, key, msg := c09compare(s, m, hs, cls); cl != "" {
								c.Violate(cl, key, "%s: %s", desc, msg)
								continue
							}
							// and it must survive save + reload
							s.repo.Save(s.ctx)
							s2 := newC09sut(disk)
							if err := s2.repo.Load(s2.ctx); err != nil {
								c.Violate("reload-mismatch", "load-fresh/error", "%s then save+load: %v", desc, err)
								continue
							}
							if cl, key, msg := c09compare(s2, m, hs, "save+load-fresh"); cl != "" {
								c.Violate(cl, key, "%s then save+load: %s", desc, msg)
							}
						}
					}
				}
			}
			c.Res.Exhaustive = true
			c.Res.Nontrivial = true
			c.Res.Summary = fmt.Sprintf("revert boundary sweep: %d cases over sizes %v", c.Res.Cases, sizes)
		}})
}

// ---- concurrent callers: the block repository as a linearizable object ---------------------------

type c09cin struct {
	kind   string // add | revert | tip | hashAt | heightOf
	hdr    wire.BlockHeader
	target int
	hash   bitcoin.Hash32
}

type c09cout struct {
	ok     bool
	hash   bitcoin.Hash32
	height int
}

type c09chain struct{ hs string } // concatenated 32-byte hashes, genesis first (immutable value)

func (c c09chain) tip() int { return len(c.hs)/32 - 1 }
func (c c09chain) at(h int) (out bitcoin.Hash32) {
	copy(out[:], c.hs[h*32:h*32+32])
	return
}

func runC09Concurrent(c *Ctx) {
	t := c.Scen
	S := simrt.New(c.Sched)
	S.PreemptDen = uint32(pickFrom(t, 2, 2, 3, 4))
	maybeStalls(c, S, 2, 10)
	disk := NewSimDisk()
	s := newC09sut(disk)
	g := mainNetGenesisHeader()
	var ops []porcupine.Operation
	var stamp int64
	finished, nTasks := 0, 0
	var initChain c09chain
	var panics []string
	simrt.Go("setup", func() {
		if err := s.repo.Load(s.ctx); err != nil {
			c.Violate("load-error", "initial", "%v", err)
			return
		}
		// a short initial chain; one writer (adds and reverts arrive on one thread in the node:
		// the headers handler / block processor exclude each other) and 1-3 readers
		chain := []wire.BlockHeader{g}
		salt := int(t.Choose(1 << 20))
		mk := func(prev bitcoin.Hash32) wire.BlockHeader {
			salt++
			return wire.BlockHeader{Version: 1, PrevBlock: prev, MerkleRoot: dsha([]byte(fmt.Sprint("cc", salt))), Timestamp: uint32(1500000000 + salt), Bits: 0x1d00ffff, Nonce: uint32(salt)}
		}
		n0 := 2 + int(t.Choose(6))
		if t.Bool(1, 6) {
			n0 = 997 + int(t.Choose(5))
		}
		for i := 0; i < n0; i++ {
			h := mk(*chain[len(chain)-1].BlockHash())
			if err := s.repo.Add(s.ctx, &h); err != nil {
				c.Violate("op-error", "add", "%v", err)
				return
			}
			chain = append(chain, h)
		}
		var sb strings.Builder
		for _, h := range chain {
			hh := *h.BlockHash()
			sb.Write(hh[:])
		}
		initChain = c09chain{sb.String()}
		// writer plan (pre-generated against the model so every add links)
		var wplan []c09cin
		cur := append([]wire.BlockHeader{}, chain...)
		for i := 3 + int(t.Choose(6)); i > 0; i-- {
			if len(cur) > 2 && t.Bool(2, 5) {
				tg := len(cur) - 2 - int(t.Choose(uint32(minInt(3, len(cur)-2))))
				wplan = append(wplan, c09cin{kind: "revert", target: tg})
				cur = cur[:tg+1]
			} else {
				h := mk(*cur[len(cur)-1].BlockHash())
				wplan = append(wplan, c09cin{kind: "add", hdr: h})
				cur = append(cur, h)
			}
		}
		readers := 1 + int(t.Choose(3))
		nTasks = readers + 1
		record := func(client int, in c09cin, f func() c09cout) {
			simrt.ForceYield()
			stamp++
			call := stamp
			out := f()
			stamp++
			ops = append(ops, porcupine.Operation{ClientId: client, Input: in, Call: call, Output: out, Return: stamp})
		}
		guardTask := func(f func()) func() {
			return func() {
				defer func() {
					if r := recover(); r != nil {
						panics = append(panics, fmt.Sprint(r))
					}
					finished++
				}()
				f()
			}
		}
		simrt.Go("writer", guardTask(func() {
			for _, in := range wplan {
				in := in
				record(0, in, func() c09cout {
					if in.kind == "add" {
						return c09cout{ok: s.repo.Add(s.ctx, &in.hdr) == nil}
					}
					return c09cout{ok: s.repo.Revert(s.ctx, in.target) == nil}
				})
			}
		}))
		for r := 0; r < readers; r++ {
			r := r
			var plan []c09cin
			for i := 2 + int(t.Choose(6)); i > 0; i-- {
				switch t.Choose(3) {
				case 0:
					plan = append(plan, c09cin{kind: "tip"})
				case 1:
					plan = append(plan, c09cin{kind: "hashAt", target: len(chain) - 1 - int(t.Choose(4)) + int(t.Choose(4))})
				default:
					// a hash of the initial chain or of a block the writer will add
					cands := []bitcoin.Hash32{*chain[len(chain)-1].BlockHash()}
					for _, w := range wplan {
						if w.kind == "add" {
							cands = append(cands, *w.hdr.BlockHash())
						}
					}
					plan = append(plan, c09cin{kind: "heightOf", hash: cands[t.Choose(uint32(len(cands)))]})
				}
			}
			simrt.Go(fmt.Sprintf("reader-%d", r), guardTask(func() {
				for _, in := range plan {
					in := in
					record(r+1, in, func() c09cout {
						switch in.kind {
						case "tip":
							hdr, err := s.repo.Header(s.ctx, -1)
							if err != nil || hdr == nil {
								return c09cout{}
							}
							return c09cout{ok: true, hash: *hdr.BlockHash()}
						case "hashAt":
							hh, err := s.repo.Hash(s.ctx, in.target)
							if err != nil || hh == nil {
								return c09cout{}
							}
							return c09cout{ok: true, hash: *hh}
						default:
							hgt, ok := s.repo.Height(&in.hash)
							return c09cout{ok: ok, height: hgt}
						}
					})
				}
			}))
		}
	})
	S.Run(func() bool { return nTasks > 0 && finished == nTasks })
	for _, p := range panics {
		c.Violate("panic", "concurrent", "panic in a concurrent caller: %s", p)
	}
	if nTasks == 0 || finished != nTasks {
		if len(c.Res.Violations) == 0 {
			c.Res.Inconclusive = "callers-stuck"
		}
		return
	}
	model := porcupine.Model{
		Init: func() interface{} { return initChain },
		Step: func(state, input, output interface{}) (bool, interface{}) {
			ch := state.(c09chain)
			in := input.(c09cin)
			out := output.(c09cout)
			switch in.kind {
			case "add":
				hh := *in.hdr.BlockHash()
				return out.ok, c09chain{ch.hs + string(hh[:])}
			case "revert":
				if in.target > ch.tip() {
					return true, ch
				}
				return out.ok, c09chain{ch.hs[:(in.target+1)*32]}
			case "tip":
				return out.ok && out.hash == ch.at(ch.tip()), ch
			case "hashAt":
				if in.target < 0 || in.target > ch.tip() {
					return !out.ok, ch
				}
				return out.ok && out.hash == ch.at(in.target), ch
			default:
				idx := strings.Index(ch.hs, string(in.hash[:]))
				if idx < 0 || idx%32 != 0 {
					return !out.ok, ch
				}
				return out.ok && out.height == idx/32, ch
			}
		},
		Equal: func(a, b interface{}) bool { return a.(c09chain) == b.(c09chain) },
	}
	switch porcupine.CheckOperationsTimeout(model, ops, 20*time.Second) {
	case porcupine.Illegal:
		var sb strings.Builder
		for _, o := range ops {
			in := o.Input.(c09cin)
			out := o.Output.(c09cout)
			fmt.Fprintf(&sb, " [%d,%d]c%d:%s", o.Call, o.Return, o.ClientId, in.kind)
			switch in.kind {
			case "revert", "hashAt":
				fmt.Fprintf(&sb, "(%d)", in.target)
			case "heightOf":
				fmt.Fprintf(&sb, "(%s)", shortHash(in.hash))
			}
			fmt.Fprintf(&sb, "=%v/%s/%d", out.ok, shortHash(out.hash), out.height)
		}
		c.Violate("not-linearizable", "blockstore", "no sequential order of the concurrent Add / Revert / Header(-1) / Hash / Height calls explains the answers (initial height %d):%s", initChain.tip(), sb.String())
	case porcupine.Unknown:
		c.Res.Inconclusive = "porcupine-timeout"
		return
	}
	c.Probe("history_checked")
	c.Res.Nontrivial = true
	c.Res.Summary = fmt.Sprintf("initial height %d, %d operations, %d tasks, preempt=1/%d", initChain.tip(), len(ops), nTasks, S.PreemptDen)
}

func init() {
	Register(&Check{Prop: "C09", Sub: "blockstore-concurrent", Weight: 4,
		Real: []string{"internal/storage.BlockRepository (Add, Revert, Header(-1), Hash, Height)"},
		Stub: []string{"disk (simdisk)", "goroutine scheduling (simrt baton, thread stalls)"},
		Req:  []string{"history_checked"},
		Rule: "one writer task (3-8 adds and reverts that all apply) and 1-3 reader tasks (tip header, hash at a height near the tip, height of a hash) interleaved by the tape at every lock; invoke/return stamped with a global counter; the history is checked with porcupine against the slice-of-headers model.",
		Run:  runC09Concurrent})
}
