//go:build go1.26

package verifsim

import (
	"bytes"
	"crypto/sha256"
	"fmt"
	"time"

	"github.com/pkg/errors"
	"github.com/tokenized/config"
	"github.com/tokenized/pkg/bitcoin"
	"github.com/tokenized/pkg/expanded_tx"
	"github.com/tokenized/pkg/merchant_api"
	"github.com/tokenized/pkg/wire"
	"github.com/tokenized/spynode/pkg/client"
	"verif.local/simrt"
)

// ---- C16: every synchronous call returns the response to its own request ----------------------

type callSpec struct {
	idx    int
	kind   string
	tx     *wire.MsgTx    // GetTx / SendTx / ReprocessTx key
	hash   bitcoin.Hash32 // header hash / tx hash
	height int
	count  int
	outpoints []wire.OutPoint
	// service behaviour for this key
	action string        // respond | reject | drop | respond-twice
	delay  time.Duration // service-side delay before answering
	code   client.RejectCode
	text   string
	// observed
	startedAt  time.Duration
	returnedAt time.Duration
	err        error
	result     interface{}
	done       bool
	respondedAt time.Duration // when the service sent its answer (-1 never)
	requestSeenAt time.Duration
}

func (cl *callSpec) String() string {
	return fmt.Sprintf("#%d %s action=%s delay=%v", cl.idx, cl.kind, cl.action, cl.delay)
}

type c16run struct {
	c     *Ctx
	cs    *ClientSim
	calls []*callSpec
	txs   map[bitcoin.Hash32]*wire.MsgTx // everything the service can serve
	hdrs  map[bitcoin.Hash32]*wire.BlockHeader
	chain []*wire.BlockHeader
	reqTimeout time.Duration
	msgTimeout time.Duration
	fee   merchant_api.FeeQuotes
}

func saveTxsHash(txs expanded_tx.AncestorTxs) bitcoin.Hash32 {
	h := sha256.New()
	for _, tx := range txs {
		id := *tx.Tx.TxHash()
		h.Write(id[:])
	}
	var out bitcoin.Hash32
	copy(out[:], h.Sum(nil))
	return out
}

// answer is the service side: it answers one request according to the call's plan.
func (r *c16run) answer(sc *SvcConn, cl *callSpec, payload client.MessagePayload, rejectType uint64, key *bitcoin.Hash32) {
	cl.requestSeenAt = r.cs.S.Now()
	act := cl.action
	if act == "drop" {
		r.c.FaultFired("F-peer-stall")
		return
	}
	simrt.GoDaemon(fmt.Sprintf("svc-answer#%d", cl.idx), func() {
		if cl.delay > 0 {
			simrt.Sleep(cl.delay)
		}
		if sc.Dead {
			return
		}
		cl.respondedAt = r.cs.S.Now()
		switch act {
		case "reject":
			sc.Send(&client.Reject{MessageType: rejectType, Hash: key, Code: cl.code, Message: cl.text})
		case "respond-twice":
			r.c.FaultFired("F-peer-dup")
			sc.Send(payload)
			sc.Send(payload)
		default:
			sc.Send(payload)
		}
	})
}

func (r *c16run) findCall(kind string, match func(cl *callSpec) bool) *callSpec {
	for _, cl := range r.calls {
		if cl.kind == kind && cl.requestSeenAt < 0 && match(cl) {
			return cl
		}
	}
	return nil
}

func (r *c16run) onMessage(sc *SvcConn, m client.MessagePayload) {
	switch p := m.(type) {
	case *client.GetTx:
		if cl := r.findCall("GetTx", func(cl *callSpec) bool { return cl.hash == p.TxID }); cl != nil {
			k := p.TxID
			r.answer(sc, cl, &client.BaseTx{Tx: r.txs[p.TxID]}, client.MessageTypeGetTx, &k)
			return
		}
		// GetOutputs lookups: answered promptly with the transaction, or rejected when unknown
		if tx, ok := r.txs[p.TxID]; ok {
			sc.Send(&client.BaseTx{Tx: tx})
		} else {
			k := p.TxID
			sc.Send(&client.Reject{MessageType: client.MessageTypeGetTx, Hash: &k, Code: client.RejectCodeNotFound, Message: "unknown tx"})
		}
	case *client.GetHeaders:
		if cl := r.findCall("GetHeaders", func(cl *callSpec) bool { return cl.height == int(p.RequestHeight) }); cl != nil {
			r.answer(sc, cl, r.headersFor(cl.height, int(p.MaxCount)), client.MessageTypeGetHeaders, nil)
		}
	case *client.GetHeader:
		if cl := r.findCall("GetHeader", func(cl *callSpec) bool { return cl.hash == p.BlockHash }); cl != nil {
			k := p.BlockHash
			r.answer(sc, cl, &client.Header{Header: *r.hdrs[p.BlockHash], BlockHeight: uint32(100 + cl.idx), IsMostPOW: true}, client.MessageTypeGetHeader, &k)
		}
	case *client.SendTx:
		id := *p.Tx.TxHash()
		if cl := r.findCall("SendTx", func(cl *callSpec) bool { return cl.hash == id }); cl != nil {
			r.answer(sc, cl, &client.Accept{MessageType: client.MessageTypeSendTx, Hash: &id}, client.MessageTypeSendTx, &id)
		}
	case *client.SaveTxs:
		id := saveTxsHash(p.Txs)
		if cl := r.findCall("SaveTxs", func(cl *callSpec) bool { return cl.hash == id }); cl != nil {
			r.answer(sc, cl, &client.Accept{MessageType: client.MessageTypeSaveTxs, Hash: &id}, client.MessageTypeSaveTxs, &id)
		}
	case *client.ReprocessTx:
		id := p.TxID
		if cl := r.findCall("ReprocessTx", func(cl *callSpec) bool { return cl.hash == id }); cl != nil {
			r.answer(sc, cl, &client.Accept{MessageType: client.MessageTypeReprocessTx, Hash: &id}, client.MessageTypeReprocessTx, &id)
		}
	case *client.MarkHeaderInvalid:
		id := p.BlockHash
		if cl := r.findCall("MarkHeaderInvalid", func(cl *callSpec) bool { return cl.hash == id }); cl != nil {
			r.answer(sc, cl, &client.Accept{MessageType: client.MessageTypeMarkHeaderInvalid, Hash: &id}, client.MessageTypeMarkHeaderInvalid, &id)
		}
	case *client.MarkHeaderNotInvalid:
		id := p.BlockHash
		if cl := r.findCall("MarkHeaderNotInvalid", func(cl *callSpec) bool { return cl.hash == id }); cl != nil {
			r.answer(sc, cl, &client.Accept{MessageType: client.MessageTypeMarkHeaderNotInvalid, Hash: &id}, client.MessageTypeMarkHeaderNotInvalid, &id)
		}
	case *client.GetFeeQuotes:
		if cl := r.findCall("GetFeeQuotes", func(cl *callSpec) bool { return true }); cl != nil {
			r.answer(sc, cl, &client.FeeQuotes{FeeQuotes: r.fee}, client.MessageTypeGetFeeQuotes, nil)
		}
	}
}

func (r *c16run) headersFor(height, count int) *client.Headers {
	h := &client.Headers{RequestHeight: int32(height), StartHeight: uint32(height)}
	base := height
	if height < 0 {
		// "the most recent headers": the answer repeats the request height (-1) and starts at
		// tip - count + 1
		base = 500 - count + 1
		h.StartHeight = uint32(base)
	}
	for i := 0; i < count && i < 3; i++ {
		h.Headers = append(h.Headers, r.chain[(base+i)%len(r.chain)])
	}
	return h
}

// issue performs one call on the calling task and records the result.
func (r *c16run) issue(cl *callSpec) {
	rc := r.cs.RC
	ctx := quietCtx()
	cl.startedAt = r.cs.S.Now()
	simrt.Eventf("app-call", "%s", cl)
	switch cl.kind {
	case "GetTx":
		cl.result, cl.err = rc.GetTx(ctx, cl.hash)
	case "GetHeaders":
		cl.result, cl.err = rc.GetHeaders(ctx, cl.height, cl.count)
	case "GetHeader":
		cl.result, cl.err = rc.GetHeader(ctx, cl.hash)
	case "SendTx":
		cl.err = rc.SendTx(ctx, cl.tx)
	case "SaveTxs":
		cl.err = rc.SaveTxs(ctx, expanded_tx.AncestorTxs{&expanded_tx.AncestorTx{Tx: cl.tx}})
	case "ReprocessTx":
		cl.err = rc.ReprocessTx(ctx, cl.hash, nil)
	case "MarkHeaderInvalid":
		cl.err = rc.MarkHeaderInvalid(ctx, cl.hash)
	case "MarkHeaderNotInvalid":
		cl.err = rc.MarkHeaderNotInvalid(ctx, cl.hash)
	case "GetFeeQuotes":
		cl.result, cl.err = rc.GetFeeQuotes(ctx)
	case "GetOutputs":
		cl.result, cl.err = rc.GetOutputs(ctx, cl.outpoints)
	}
	cl.returnedAt = r.cs.S.Now()
	cl.done = true
	simrt.Eventf("app-return", "#%d %s err=%v", cl.idx, cl.kind, cl.err)
}

func (r *c16run) judge(cl *callSpec) {
	c := r.c
	elapsed := cl.returnedAt - cl.startedAt
	if !cl.done {
		c.Violate("call-hang", cl.kind, "call %s never returned", cl)
		return
	}
	if cl.kind == "GetOutputs" {
		r.judgeOutputs(cl)
		return
	}
	// a response counts as "in time" only with room for the link and for every injected thread
	// stall (a stalled reader or dispatcher thread delays a response inside the client)
	slack := 400*time.Millisecond + r.cs.S.StallTime
	deadline := cl.startedAt + r.reqTimeout
	inTime := cl.respondedAt >= 0 && cl.respondedAt < deadline-slack
	tooLate := cl.respondedAt < 0 || cl.respondedAt > deadline+slack
	isTimeout := cl.err != nil && errors.Cause(cl.err) == client.ErrTimeout
	switch {
	case inTime && (cl.action == "respond" || cl.action == "respond-twice"):
		if cl.err != nil {
			cls := "response=" + cl.kind
			c.Violate("response-lost", cls, "call %s: the service answered at t=%v (call started t=%v, request time-out %v) but the call returned %v after %v", cl, cl.respondedAt, cl.startedAt, r.reqTimeout, cl.err, elapsed)
			return
		}
		if msg := r.wrongPayload(cl); msg != "" {
			c.Violate("wrong-response", cl.kind, "call %s returned another request's response: %s", cl, msg)
		}
		c.Probe("request_answered")
	case inTime && cl.action == "reject":
		re, ok := errors.Cause(cl.err).(client.RejectError)
		if !ok {
			c.Violate("reject-lost", cl.kind, "call %s: the service rejected it (code %d, %q) at t=%v but the call returned %v after %v", cl, cl.code, cl.text, cl.respondedAt, cl.err, elapsed)
			return
		}
		if re.Code != cl.code || re.Description != cl.text {
			c.Violate("reject-wrong", cl.kind, "call %s: reject carried code %d %q, the service sent %d %q", cl, re.Code, re.Description, cl.code, cl.text)
		}
		c.Probe("request_rejected")
	case tooLate:
		if !isTimeout {
			c.Violate("timeout-missing", cl.kind, "call %s got no response in time (service answered: %v) but returned %v (result %v) after %v instead of a time-out", cl, cl.respondedAt, cl.err, cl.result != nil, elapsed)
			return
		}
		if elapsed < r.reqTimeout {
			c.Violate("timeout-early", cl.kind, "call %s timed out after %v, the configured request time-out is %v", cl, elapsed, r.reqTimeout)
		}
		if elapsed > r.reqTimeout+r.msgTimeout+5*time.Second {
			c.Violate("timeout-late", cl.kind, "call %s timed out only after %v (request time-out %v, message time-out %v)", cl, elapsed, r.reqTimeout, r.msgTimeout)
		}
		c.Probe("request_timed_out")
	default:
		c.Probe("borderline_not_judged")
	}
}

func (r *c16run) wrongPayload(cl *callSpec) string {
	switch cl.kind {
	case "GetTx":
		tx, _ := cl.result.(*wire.MsgTx)
		if tx == nil || *tx.TxHash() != cl.hash {
			return fmt.Sprintf("got tx %v, asked for %s", tx, shortHash(cl.hash))
		}
	case "GetHeaders":
		h, _ := cl.result.(*client.Headers)
		want := r.headersFor(cl.height, cl.count)
		if h == nil || int(h.RequestHeight) != cl.height || len(h.Headers) != len(want.Headers) {
			return fmt.Sprintf("got %+v for height %d", h, cl.height)
		}
		for i := range want.Headers {
			if *h.Headers[i].BlockHash() != *want.Headers[i].BlockHash() {
				return fmt.Sprintf("header %d differs for height %d", i, cl.height)
			}
		}
	case "GetHeader":
		h, _ := cl.result.(*client.Header)
		if h == nil || *h.Header.BlockHash() != cl.hash || h.BlockHeight != uint32(100+cl.idx) {
			return fmt.Sprintf("got %+v, asked for %s", h, shortHash(cl.hash))
		}
	case "GetFeeQuotes":
		q, _ := cl.result.(merchant_api.FeeQuotes)
		if len(q) != len(r.fee) {
			return fmt.Sprintf("got %d fee quotes, service sent %d", len(q), len(r.fee))
		}
	}
	return ""
}

func (r *c16run) judgeOutputs(cl *callSpec) {
	c := r.c
	// expected per outpoint
	type exp struct {
		out *wire.TxOut
		bad bool
	}
	var want []exp
	anyBad := false
	for _, op := range cl.outpoints {
		tx, ok := r.txs[op.Hash]
		if !ok || int(op.Index) >= len(tx.TxOut) {
			want = append(want, exp{bad: true})
			anyBad = true
			continue
		}
		want = append(want, exp{out: tx.TxOut[op.Index]})
	}
	class := "distinct-txids"
	seen := map[bitcoin.Hash32]uint32{}
	for _, op := range cl.outpoints {
		if idx, ok := seen[op.Hash]; ok {
			if idx != op.Index {
				class = "repeated-txid-different-index"
			} else if class == "distinct-txids" {
				class = "repeated-txid-same-index"
			}
		}
		seen[op.Hash] = op.Index
	}
	if anyBad {
		class += "/out-of-range-or-unknown"
	}
	utxos, _ := cl.result.([]bitcoin.UTXO)
	if cl.err != nil {
		if !anyBad {
			c.Violate("outputs-error", class, "GetOutputs(%v) failed although every outpoint exists: %v", cl.outpoints, cl.err)
		}
		c.Probe("outputs_checked")
		return
	}
	if anyBad {
		c.Violate("outputs-no-error", class, "GetOutputs(%v) has an unknown or out-of-range outpoint but returned %d results and no error", cl.outpoints, len(utxos))
		return
	}
	if len(utxos) != len(want) {
		c.Violate("wrong-output", class+"/count", "GetOutputs(%v) returned %d outputs", cl.outpoints, len(utxos))
		return
	}
	for i, w := range want {
		if utxos[i].Value != w.out.Value || !bytes.Equal(utxos[i].LockingScript, w.out.LockingScript) || utxos[i].Hash != cl.outpoints[i].Hash || utxos[i].Index != cl.outpoints[i].Index {
			c.Violate("wrong-output", class, "GetOutputs(%v): result %d is value %d, outpoint %s pays %d", cl.outpoints, i, utxos[i].Value, cl.outpoints[i].String(), w.out.Value)
			return
		}
	}
	c.Probe("outputs_checked")
}

func runC16(c *Ctx) {
	t := c.Scen
	connType := client.ConnectionTypeControl
	if t.Bool(1, 2) {
		connType = client.ConnectionTypeFull
	}
	cs := NewClientSim(c, connType)
	cs.S.PreemptDen = uint32(pickFrom(t, 0, 2, 3, 4, 8, 16))
	maybeStalls(c, cs.S)
	r := &c16run{c: c, cs: cs, txs: map[bitcoin.Hash32]*wire.MsgTx{}, hdrs: map[bitcoin.Hash32]*wire.BlockHeader{}}
	r.reqTimeout = time.Duration(pickFrom(t, 2, 3, 5, 10)) * time.Second
	r.msgTimeout = time.Duration(pickFrom(t, 2, 5, 30)) * time.Second
	cs.Cfg.RequestTimeout = config.NewDuration(r.reqTimeout)
	cs.Cfg.MessageChannelTimeout = config.NewDuration(r.msgTimeout)
	cs.LinkFor = func(n int) *Link {
		return &Link{BaseLatency: time.Duration(pickFrom(t, 1, 2, 10, 40)) * time.Millisecond, Jitter: time.Duration(pickFrom(t, 0, 5, 30)) * time.Millisecond, Tape: t, Frag: t.Bool(1, 3), Coalesce: t.Bool(1, 2)}
	}
	w := NewTxWorld()
	prev := bitcoin.Hash32{}
	for i := 0; i < 12; i++ {
		h := &wire.BlockHeader{Version: 1, PrevBlock: prev, MerkleRoot: dsha([]byte(fmt.Sprint("c16", i))), Timestamp: uint32(1600000000 + i), Bits: 0x1d00ffff, Nonce: uint32(i)}
		r.chain = append(r.chain, h)
		r.hdrs[*h.BlockHash()] = h
		prev = *h.BlockHash()
	}
	r.fee = merchant_api.FeeQuotes{&merchant_api.FeeQuote{FeeType: merchant_api.FeeTypeStandard, MiningFee: merchant_api.Fee{Satoshis: 500, Bytes: 1000}}}
	kinds := []string{"GetTx", "GetTx", "GetHeaders", "GetHeader", "SendTx", "SaveTxs", "ReprocessTx", "MarkHeaderInvalid", "MarkHeaderNotInvalid", "GetFeeQuotes", "GetOutputs", "GetOutputs"}
	n := 1 + int(t.Choose(8))
	usedFee := false
	usedNeg := false
	for i := 0; i < n; i++ {
		cl := &callSpec{idx: i, kind: kinds[t.Choose(uint32(len(kinds)))], respondedAt: -1, requestSeenAt: -1}
		if cl.kind == "GetFeeQuotes" {
			if usedFee {
				cl.kind = "GetTx"
			}
			usedFee = true
		}
		tx := w.NewTx([]wire.OutPoint{w.Fund(uint64(100 + i))}, nil, 1+int(t.Choose(3)), 500+i)
		r.txs[*tx.TxHash()] = tx
		cl.tx = tx
		cl.hash = *tx.TxHash()
		switch cl.kind {
		case "GetHeaders":
			cl.height = 10 + i
			cl.count = 1 + int(t.Choose(3))
			if !usedNeg && t.Bool(1, 3) {
				usedNeg = true
				cl.height = -1
			}
		case "GetHeader", "MarkHeaderInvalid", "MarkHeaderNotInvalid":
			cl.hash = *r.chain[i%len(r.chain)].BlockHash()
			// keys must be distinct per kind
			h := &wire.BlockHeader{Version: 1, MerkleRoot: dsha([]byte(fmt.Sprint("hk", i))), Timestamp: uint32(1700000000 + i), Bits: 0x1d00ffff, Nonce: uint32(1000 + i)}
			r.hdrs[*h.BlockHash()] = h
			cl.hash = *h.BlockHash()
		case "SaveTxs":
			cl.hash = saveTxsHash(expanded_tx.AncestorTxs{&expanded_tx.AncestorTx{Tx: tx}})
		case "GetOutputs":
			// outpoint lists with repeated txids, any order, out-of-range indexes
			tx2 := w.NewTx([]wire.OutPoint{w.Fund(uint64(300 + i))}, nil, 2+int(t.Choose(2)), 700+i)
			r.txs[*tx2.TxHash()] = tx2
			m := 1 + int(t.Choose(4))
			for k := 0; k < m; k++ {
				src := tx
				if t.Bool(1, 2) {
					src = tx2
				}
				idx := uint32(t.Choose(uint32(len(src.TxOut))))
				if t.Bool(1, 10) {
					idx = uint32(len(src.TxOut)) + uint32(t.Choose(3))
				}
				cl.outpoints = append(cl.outpoints, wire.OutPoint{Hash: *src.TxHash(), Index: idx})
			}
		}
		switch t.Choose(10) {
		case 0, 1:
			cl.action = "drop"
		case 2, 3:
			cl.action = "reject"
			cl.code = client.RejectCode(1 + t.Choose(4))
			cl.text = fmt.Sprintf("rejected-%d", i)
		case 4:
			cl.action = "respond-twice"
		default:
			cl.action = "respond"
		}
		if cl.kind == "GetHeaders" && cl.action == "reject" {
			cl.action = "respond" // header-range rejects carry no key
		}
		if cl.kind == "GetFeeQuotes" && cl.action == "reject" {
			cl.action = "respond"
		}
		switch t.Choose(6) {
		case 0:
			cl.delay = r.reqTimeout + time.Duration(500+t.Choose(4000))*time.Millisecond // after the caller gave up
		case 1, 2:
			cl.delay = time.Duration(t.Choose(uint32(r.reqTimeout/time.Millisecond))) * time.Millisecond
		default:
			cl.delay = time.Duration(t.Choose(300)) * time.Millisecond
		}
		if cl.action == "drop" {
			c.FaultConfigured("F-peer-stall")
		}
		r.calls = append(r.calls, cl)
	}
	cs.Svc.OnMessage = r.onMessage
	c.Res.Summary = fmt.Sprintf("conn=%d reqTimeout=%v msgTimeout=%v preempt=1/%d calls=%v", connType, r.reqTimeout, r.msgTimeout, cs.S.PreemptDen, r.calls)
	done := false
	simrt.Go("driver", func() {
		defer func() { done = true }()
		simrt.NoPreempt(func() { // the application is configured before the client runs
			cs.Start()
			cs.H1.ReadyMode = "next"
		})
		// wait for the handshake
		deadline := cs.S.Now() + 20*time.Second
		for cs.S.Now() < deadline {
			if len(cs.Svc.Conns) > 0 && cs.Svc.Conns[len(cs.Svc.Conns)-1].HandshakeDone() {
				break
			}
			simrt.Sleep(50 * time.Millisecond)
		}
		if len(cs.Svc.Conns) == 0 || !cs.Svc.Conns[len(cs.Svc.Conns)-1].HandshakeDone() {
			c.Res.Inconclusive = "no-handshake"
			return
		}
		c.Probe("handshake_completed")
		simrt.Sleep(100 * time.Millisecond)
		// concurrent calls from their own tasks
		for _, cl := range r.calls {
			cl := cl
			start := time.Duration(t.Choose(1500)) * time.Millisecond
			retry := cl.kind != "GetOutputs" && t.Bool(1, 3)
			retryDelay := time.Duration(t.Choose(200)) * time.Millisecond
			simrt.Go(fmt.Sprintf("app-call#%d", cl.idx), func() {
				simrt.Sleep(start)
				r.issue(cl)
				if retry {
					// the same request again (same key) once the first call is over, whatever its
					// outcome was; this time the service answers promptly
					// (a late answer to the first request would be indistinguishable from the answer
					// to the second: wait until the service has sent whatever it was going to send)
					if cl.action != "drop" {
						for i := 0; i < 600 && cl.respondedAt < 0; i++ {
							simrt.Sleep(100 * time.Millisecond)
						}
						if cl.respondedAt < 0 {
							return
						}
						simrt.Sleep(time.Second)
					}
					c.Probe("same_key_again")
					cp := *cl
					cl2 := &cp
					cl2.idx = 100 + cl.idx
					cl2.action, cl2.delay = "respond", retryDelay
					cl2.respondedAt, cl2.requestSeenAt = -1, -1
					cl2.err, cl2.result, cl2.done = nil, nil, false
					r.calls = append(r.calls, cl2)
					r.issue(cl2)
				}
			})
		}
		// unsolicited responses
		if t.Bool(1, 2) {
			simrt.Sleep(time.Duration(t.Choose(1000)) * time.Millisecond)
			sc := cs.Svc.Conns[len(cs.Svc.Conns)-1]
			c.FaultFired("F-peer-unsolicited")
			x := w.NewTx([]wire.OutPoint{w.Fund(9)}, nil, 1, 9999)
			sc.Send(&client.BaseTx{Tx: x})
			id := *x.TxHash()
			sc.Send(&client.Accept{MessageType: client.MessageTypeSendTx, Hash: &id})
		}
		wait := r.reqTimeout*4 + r.msgTimeout + 20*time.Second
		simrt.Sleep(wait)
		simrt.NoPreempt(func() {
			for _, cl := range r.calls {
				r.judge(cl)
			}
		})
		c.Res.Nontrivial = len(r.calls) > 1
		cs.Shutdown(30 * time.Second)
	})
	cs.S.Run(func() bool { return done })
	if !done && len(c.Res.Violations) == 0 && c.Res.Inconclusive == "" && !cs.S.Zeno && !cs.S.StepCap {
		c.Res.Inconclusive = "driver-stuck"
	}
	reportClientPanics(c, cs)
}

func reportClientPanics(c *Ctx, cs *ClientSim) {
	for _, p := range cs.S.Panics {
		k := panicKey(p)
		if k == "unknown" {
			c.Violate("harness-panic", "harness", "%s", p)
		} else {
			c.Violate("panic", k, "%s", p)
		}
	}
}

var clientReal = []string{"pkg/client.RemoteClient (Run, maintainConnection, send/receive/handler/request/ping threads, every public call)", "github.com/tokenized/threads (instrumented copy)", "pkg/client message (de)serialisation"}
var clientStub = []string{"spynode service (scripted model: verifies Register, derives the session key, signs AcceptRegister, answers requests)", "transport (simnet)", "clock (synctest)", "goroutine scheduling (simrt baton)", "crypto/rand session hash (deterministic stream)"}

func init() {
	Register(&Check{Prop: "C16", Sub: "calls", Weight: 1, Real: clientReal, Stub: clientStub,
		Req:  []string{"handshake_completed", "request_answered", "request_timed_out", "request_rejected", "outputs_checked"},
		Rule: "1-8 concurrent calls of mixed kinds with distinct keys issued from their own tasks; per key the service answers, rejects, answers twice, or stays silent, after a tape-drawn delay (also after the caller's time-out), in whatever order results, plus unsolicited responses; non-trivial = more than one call.",
		Run:  runC16})
}
