//go:build go1.26

package verifsim

import (
	"bytes"
	"fmt"
	"time"

	"github.com/pkg/errors"
	"github.com/tokenized/config"
	"github.com/tokenized/pkg/bitcoin"
	"github.com/tokenized/pkg/merkle_proof"
	"github.com/tokenized/pkg/wire"
	"github.com/tokenized/spynode/pkg/client"
	"verif.local/simrt"
)

// ---- C18: the client authenticates the service and gates traffic on the handshake ---------------

type c18call struct {
	idx      int
	kind     string // post | gettx
	marker   bitcoin.Hash32
	at       time.Duration // offset from start
	started  time.Duration
	returned time.Duration
	err      error
	done     bool
}

// c18ForceBurst: set by the C15 registration, which is only interested in concurrent direct writers.
var c18ForceBurst bool

func runC18(c *Ctx) {
	t := c.Scen
	connType := client.ConnectionTypeFull
	if t.Bool(1, 3) {
		connType = client.ConnectionTypeControl
	}
	cs := NewClientSim(c, connType)
	cs.S.PreemptDen = uint32(pickFrom(t, 0, 2, 3, 4, 8, 16))
	maybeStalls(c, cs.S)
	reqTimeout := time.Duration(pickFrom(t, 2, 4)) * time.Second
	msgTimeout := time.Duration(pickFrom(t, 2, 4, 8)) * time.Second
	hsTimeout := time.Duration(pickFrom(t, 3, 6)) * time.Second
	cs.Cfg.RequestTimeout = config.NewDuration(reqTimeout)
	cs.Cfg.MessageChannelTimeout = config.NewDuration(msgTimeout)
	cs.Cfg.HandshakeTimeout = config.NewDuration(hsTimeout)
	// accept behaviour per connection
	modes := []string{"valid", "valid", "valid", "wrong-key", "other-hash", "bad-sig", "altered-counts", "replay", "none", "reject"}
	plan := []string{}
	for k := 0; k < 4; k++ {
		m := modes[t.Choose(uint32(len(modes)))]
		if m == "replay" && k == 0 {
			m = "valid"
		}
		plan = append(plan, m)
	}
	// a replay needs a previous valid accept, so drop the valid connection before it
	dropConn := map[int]int{} // conn -> close after this many messages received from the client
	for k := 0; k < len(plan)-1; k++ {
		if plan[k] == "valid" && (plan[k+1] == "replay" || t.Bool(1, 2)) {
			dropConn[k] = 1 + int(t.Choose(6))
			c.FaultConfigured("F-close")
		}
	}
	// a valid accept with the connection lost right behind it, and no valid accept on the next
	// connection: whatever the client still does with that accept belongs to the dead connection
	closeBehindAccept := -1
	for k := 0; k < len(plan)-1; k++ {
		if plan[k] == "valid" && t.Bool(1, 4) {
			closeBehindAccept = k
			plan[k+1] = pickStr(t, "none", "none", "bad-sig")
			delete(dropConn, k)
			c.FaultConfigured("F-close")
			break
		}
	}
	cs.Svc.AfterAccept = func(sc *SvcConn, mode string) {
		if sc.ID == closeBehindAccept && mode == "valid" {
			if t.Bool(1, 2) {
				simrt.Sleep(time.Duration(t.Choose(3)) * time.Millisecond)
			}
			c.FaultFired("F-close")
			c.Probe("closed_right_behind_valid_accept")
			simrt.Eventf("fault", "service closes %s right behind its accept", sc)
			sc.C.Close()
			sc.Dead = true
		}
	}
	cs.Svc.AcceptMode = func(sc *SvcConn) string {
		if sc.ID < len(plan) {
			return plan[sc.ID]
		}
		return "valid"
	}
	w := NewTxWorld()
	forgedTx := map[int]bool{} // connections on which data was streamed after a forged accept
	cs.Svc.OnMessage = func(sc *SvcConn, m client.MessagePayload) {
		if gt, ok := m.(*client.GetTx); ok {
			tx := w.Txs[gt.TxID]
			if tx != nil {
				sc.Send(&client.BaseTx{Tx: tx})
			}
		}
		if lim, ok := dropConn[sc.ID]; ok && len(sc.Received) >= lim+1 {
			c.FaultFired("F-close")
			simrt.Eventf("fault", "service closes %s", sc)
			sc.C.Close()
			sc.Dead = true
		}
	}
	// after any forged accept the service streams data that must never reach a handler
	streamAfterForged := func(sc *SvcConn) {
		simrt.Sleep(time.Duration(5+t.Choose(100)) * time.Millisecond)
		if sc.Dead {
			return
		}
		forgedTx[sc.ID] = true
		tx := w.NewTx([]wire.OutPoint{w.Fund(77)}, subKey, 1, 4000+sc.ID)
		sc.Send(&client.Tx{ID: cs.RC.NextMessageID(), Tx: tx, Outputs: []*wire.TxOut{wire.NewTxOut(1, []byte{0x51})}})
		sc.Send(&client.InSync{})
	}
	// a service that cannot (or will not) produce a valid accept may also send its data first
	dataFirst := t.Bool(1, 3) || closeBehindAccept >= 0
	cs.Svc.BeforeAccept = func(sc *SvcConn, mode string) {
		if !dataFirst || mode == "valid" || mode == "reject" || sc.Dead {
			return
		}
		c.FaultFired("F-peer-byz")
		c.Probe("data_before_accept")
		forgedTx[-1] = true // marker: data was sent ahead of an accept
		forgedTx[sc.ID] = true
		tx := w.NewTx([]wire.OutPoint{w.Fund(78)}, subKey, 1, 5000+sc.ID)
		sc.Send(&client.Tx{ID: cs.RC.NextMessageID(), Tx: tx, Outputs: []*wire.TxOut{wire.NewTxOut(1, []byte{0x51})}})
		sc.Send(&client.InSync{})
		if t.Bool(1, 2) {
			simrt.Sleep(time.Duration(1+t.Choose(60)) * time.Millisecond)
		}
	}
	ncalls := 2 + int(t.Choose(6))
	var calls []*c18call
	for i := 0; i < ncalls; i++ {
		cl := &c18call{idx: i, kind: pickStr(t, "post", "post", "gettx", "subscribe", "subscribe")}
		tx := w.NewTx([]wire.OutPoint{w.Fund(uint64(10 + i))}, nil, 1, 100+i)
		cl.marker = *tx.TxHash()
		cl.at = time.Duration(t.Choose(9000)) * time.Millisecond
		if t.Bool(1, 4) {
			cl.at = time.Duration(t.Choose(60)) * time.Millisecond // before any accept can have arrived
		}
		calls = append(calls, cl)
	}
	cs.LinkFor = func(n int) *Link {
		l := &Link{BaseLatency: time.Duration(pickFrom(t, 1, 5, 30)) * time.Millisecond, Jitter: time.Duration(pickFrom(t, 0, 5, 40)) * time.Millisecond, Tape: t, Frag: t.Bool(1, 3), Coalesce: t.Bool(1, 2)}
		if t.Bool(1, 3) || c18ForceBurst {
			l.SlowWrite = func(side int) time.Duration {
				if side == 0 && t.Bool(1, 3) {
					return time.Duration(1+t.Choose(80)) * time.Millisecond
				}
				return 0
			}
		}
		return l
	}
	readyDelay := time.Duration(0)
	if t.Bool(1, 3) {
		readyDelay = time.Duration(t.Choose(1500)) * time.Millisecond // time between accept and ready
	}
	c.Res.Summary = fmt.Sprintf("conn=%d accept-plan=%v drops=%v reqTimeout=%v msgTimeout=%v hsTimeout=%v readyDelay=%v calls=%d", connType, plan, dropConn, reqTimeout, msgTimeout, hsTimeout, readyDelay, ncalls)
	c.FaultConfigured("F-peer-byz")
	done := false
	simrt.Go("driver", func() {
		defer func() { done = true }()
		simrt.NoPreempt(func() { // the application is configured before the client runs
			cs.Start()
			cs.H1.ReadyMode = "next"
			if connType != client.ConnectionTypeFull {
				cs.H1.ReadyMode = "none" // control connections have no ready step
			}
			cs.H1.OnAccept = func() {
				if readyDelay > 0 {
					simrt.Sleep(readyDelay)
				}
			}
		})
		started := cs.S.Now()
		// forged accepts are followed by data
		simrt.GoDaemon("forged-streamer", func() {
			seen := map[int]bool{}
			for !done {
				for _, sc := range cs.Svc.Conns {
					if !seen[sc.ID] && sc.AcceptMode != "" && sc.AcceptMode != "valid" && sc.AcceptMode != "none" && sc.AcceptMode != "reject" {
						seen[sc.ID] = true
						sc2 := sc
						c.FaultFired("F-peer-byz")
						simrt.GoDaemon("forged-data:"+sc.String(), func() { streamAfterForged(sc2) })
					}
				}
				simrt.Sleep(20 * time.Millisecond)
			}
		})
		// a third of the runs: the subscribe calls go out the moment a service accepts a connection,
		// i.e. together with the handler's Ready and with each other (all of them write directly
		// during the handshake)
		burst := t.Bool(1, 3) || c18ForceBurst
		for _, cl := range calls {
			cl := cl
			simrt.Go(fmt.Sprintf("app-call#%d", cl.idx), func() {
				if burst && cl.kind == "subscribe" {
					for i := 0; i < 20000 && !cs.RC.IsAccepted(quietCtx()); i++ {
						simrt.Sleep(time.Millisecond)
					}
					c.Probe("subscribe_burst_at_accept")
				} else if wait := started + cl.at - cs.S.Now(); wait > 0 {
					simrt.Sleep(wait)
				}
				cl.started = cs.S.Now()
				simrt.Eventf("app-call", "#%d %s", cl.idx, cl.kind)
				switch cl.kind {
				case "post":
					id := cl.marker
					mp := &merkle_proof.MerkleProof{Index: 0, TxID: &id, MerkleRoot: &id}
					cl.err = cs.RC.PostMerkleProofs(quietCtx(), []*merkle_proof.MerkleProof{mp})
				case "gettx":
					_, cl.err = cs.RC.GetTx(quietCtx(), cl.marker)
				case "subscribe":
					cl.err = cs.RC.SubscribePushDatas(quietCtx(), [][]byte{cl.marker[:]})
				}
				cl.returned = cs.S.Now()
				cl.done = true
				simrt.Eventf("app-return", "#%d err=%v", cl.idx, cl.err)
			})
		}
		simrt.Sleep(9*time.Second + 2*reqTimeout + 4*msgTimeout + hsTimeout + 10*time.Second)
		simrt.NoPreempt(func() { c18evaluate(c, cs, plan, calls, forgedTx) })
		c.Res.Nontrivial = true
		cs.Shutdown(60 * time.Second)
	})
	cs.S.Run(func() bool { return done })
	if !done && len(c.Res.Violations) == 0 && c.Res.Inconclusive == "" && !cs.S.Zeno && !cs.S.StepCap {
		c.Res.Inconclusive = "driver-stuck"
	}
	reportClientPanics(c, cs)
}

func c18evaluate(c *Ctx, cs *ClientSim, plan []string, calls []*c18call, forgedTx map[int]bool) {
	if c.Trace {
		for _, sc := range cs.Svc.Conns {
			n := 0
			for _, w := range sc.ClientSide.WriteLog {
				n += len(w.Data)
			}
			fmt.Printf("DEBUG %s client wrote %d bytes in %d writes; parsed:", sc, n, len(sc.ClientSide.WriteLog))
			for _, wm := range sc.Written() {
				fmt.Printf(" %s@%v", client.NameForMessageType(wm.Msg.Type()), wm.At)
			}
			fmt.Printf("; service received %d messages, consumed %d bytes\n", len(sc.Received), sc.C.Consumed())
			for _, w := range sc.ClientSide.WriteLog {
				fmt.Printf("DEBUG   write t=%v task=%s %x\n", w.At, w.Task, w.Data)
			}
		}
	}
	anyValid := false
	for _, sc := range cs.Svc.Conns {
		c.Probe("connection")
		if sc.Reg == nil {
			continue
		}
		// (a) the register message is validly signed by the configured client key
		if !sc.RegValid {
			c.Violate("register-invalid", "signature", "the Register on %s does not verify against the configured client key: %s", sc, sc.RegProblem)
		}
		if sc.Reg.ConnectionType != cs.Cfg.ConnectionType {
			c.Violate("register-invalid", "connection-type", "Register on %s announces connection type %d, configured %d", sc, sc.Reg.ConnectionType, cs.Cfg.ConnectionType)
		}
		// (b) nothing but registration, subscription and ready before the handshake completed
		for i, ev := range sc.Received {
			if i == 0 {
				if _, ok := ev.Msg.(*client.Register); !ok {
					c.Violate("early-request", "first-message-not-register", "the first message on %s is %s", sc, client.NameForMessageType(ev.Msg.Type()))
				}
				continue
			}
			if !ev.HandshakeDone && !client.IsHandshakeType(ev.Msg.Type()) {
				state := "before-accept"
				if sc.AcceptAt >= 0 {
					state = "accepted-before-ready"
				}
				if sc.AcceptMode != "valid" {
					state = "accept=" + sc.AcceptMode
				}
				c.Violate("early-request", state+"/"+client.NameForMessageType(ev.Msg.Type()), "%s was written to %s at t=%v before that connection's handshake had completed (accept sent: %v mode %s, ready received: %v)", client.NameForMessageType(ev.Msg.Type()), sc, ev.At, sc.AcceptAt, sc.AcceptMode, sc.ReadyAt)
			}
		}
		if sc.AcceptMode == "valid" {
			anyValid = true
			c.Probe("valid_accept")
		} else if sc.AcceptMode != "" {
			c.Probe("forged_or_missing_accept")
		}
	}
	// the bytes the client wrote on every connection are a sequence of whole messages
	for _, sc := range cs.Svc.Conns {
		total := 0
		for _, w := range sc.ClientSide.WriteLog {
			total += len(w.Data)
		}
		parsed, tail := sc.WrittenBytes()
		if tail != "" {
			c.Violate("stream-corrupt", "client-writes", "the bytes the client wrote on %s stop being parseable after %d of %d bytes (%s): concurrent writers interleaved their messages", sc, parsed, total, tail)
		}
	}
	// (d) after a forged accept nothing reaches a handler and the client does not report accepted.
	// In this check only forged connections ever stream Tx / InSync, so any such callback is
	// data that followed a forged accept; accept callbacks are counted against valid accepts.
	validAccepts, forgedConns := 0, 0
	lastForgedMode := ""
	for _, sc := range cs.Svc.Conns {
		if sc.AcceptMode == "valid" {
			validAccepts++
		} else if sc.AcceptMode != "" && sc.AcceptMode != "none" && sc.AcceptMode != "reject" {
			forgedConns++
			lastForgedMode = sc.AcceptMode
			c.Probe("forged_accept_judged")
		}
	}
	for _, rec := range []*ClientRecorder{cs.H1, cs.H2} {
		accepts := 0
		for _, cb := range rec.Log {
			switch cb.Kind {
			case "accept":
				accepts++
			case "tx", "update", "insync", "headers":
				key := "data-delivered/" + lastForgedMode
				dataFirstFired := forgedTx[-1]
				if dataFirstFired {
					key = "data-delivered/sent-before-accept"
				}
				c.Violate("forged-accept", key, "a %s notification reached handler %s; only connections without a valid accept (%d forged, last forged as %q; data ahead of the accept: %v) ever sent data", cb.Kind, rec.Name, forgedConns, lastForgedMode, dataFirstFired)
			}
		}
		if accepts > 0 {
			c.Probe("client_accepted_a_valid_accept")
		}
		if accepts > validAccepts {
			c.Violate("forged-accept", "accepted/"+lastForgedMode, "handler %s was told %d times that the service accepted the connection; only %d valid accepts were sent (forged: %s)", rec.Name, accepts, validAccepts, lastForgedMode)
		}
	}
	if n := len(cs.Svc.Conns); n > 0 {
		last := cs.Svc.Conns[n-1]
		if last.AcceptMode != "valid" && last.AcceptMode != "" && cs.RC.IsAccepted(quietCtx()) {
			c.Violate("forged-accept", "is-accepted/"+last.AcceptMode, "IsAccepted() is true although the accept on the current connection %s was %s", last, last.AcceptMode)
		}
	}
	// (c) a call that returned nil was written to a connection after its handshake completed;
	// one that could not be written fails with a time-out
	for _, cl := range calls {
		if !cl.done {
			c.Violate("call-hang", cl.kind, "call #%d (%s) issued at t=%v never returned", cl.idx, cl.kind, cl.started)
			continue
		}
		written := false
		for _, sc := range cs.Svc.Conns {
			// what the client wrote, in stream order, whether or not the service read it
			readySeen := false
			for _, wm := range sc.Written() {
				if _, ok := wm.Msg.(*client.Ready); ok {
					readySeen = true
				}
				hsDone := sc.AcceptAt >= 0 && wm.At >= sc.AcceptAt
				if cs.Cfg.ConnectionType == client.ConnectionTypeFull {
					hsDone = hsDone && readySeen
				}
				switch m := wm.Msg.(type) {
				case *client.PostMerkleProofs:
					if cl.kind == "post" && len(m.MerkleProofs) == 1 && m.MerkleProofs[0].TxID != nil && *m.MerkleProofs[0].TxID == cl.marker && hsDone {
						written = true
					}
				case *client.GetTx:
					if cl.kind == "gettx" && m.TxID == cl.marker && hsDone {
						written = true
					}
				case *client.SubscribePushData:
					// subscriptions may be written before the handshake completes
					if cl.kind == "subscribe" && len(m.PushDatas) == 1 && bytes.Equal(m.PushDatas[0], cl.marker[:]) {
						written = true
					}
				}
			}
		}
		if cl.err == nil {
			c.Probe("call_succeeded")
			if !written {
				c.Violate("sent-not-written", cl.kind, "call #%d (%s) issued at t=%v returned nil at t=%v but its bytes never reached the service on a connection whose handshake had completed", cl.idx, cl.kind, cl.started, cl.returned)
			}
		} else {
			c.Probe("call_failed")
			// any error is an honest answer; which error a directly sent subscription returns
			// while disconnected is not judged
			_ = errors.Cause(cl.err)
		}
	}
	_ = anyValid
}

func init() {
	Register(&Check{Prop: "C18", Sub: "auth-and-gating", Weight: 1, Real: clientReal, Stub: clientStub,
		Req:  []string{"connection", "valid_accept", "client_accepted_a_valid_accept", "forged_accept_judged", "call_succeeded", "call_failed"},
		Rule: "per connection the service answers the Register with a valid accept, a forged one (long-term key instead of session key, key derived for another hash, signature by another key, signature over altered counts, replay of the previous connection's accept), no accept, or a reject, and streams data after a forged accept; the application issues 2-7 calls (fire-and-forget posts and GetTx) before any accept, between accept and ready, during disconnects and after reconnects; both connection types, connection drops, slow writes; every run is non-trivial.",
		Run:  runC18})
}
