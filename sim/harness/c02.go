//go:build go1.26

package verifsim

import (
	"fmt"
	"time"

	"github.com/tokenized/pkg/bitcoin"
	"github.com/tokenized/pkg/wire"
	"github.com/tokenized/spynode/pkg/client"
	"verif.local/simrt"
)

// ---- C02: the stored chain stays hash-linked for any trusted-peer input -------------------------

type c02run struct {
	c   *Ctx
	ns  *NodeSim
	ann map[int]bitcoin.Hash32 // last hash announced to handlers per height
	top int                    // last announced height (-1 none)
	anyAnnounce bool
	checks int
}

// invariants checks the block repository's structural invariants (Appendix C / section 6 C02).
func (r *c02run) invariants(where string) {
	ns, c := r.ns, r.c
	blocks := ns.Node.VerifBlocks()
	ctx := quietCtx()
	tip := blocks.LastHeight()
	r.checks++
	var prev *bitcoin.Hash32
	lo := 0
	if tip > 60 {
		// long chains: the last forty heights and everything from just below the newest file boundary
		lo = tip - 40
		if b := (tip/1000)*1000 - 2; b >= 0 && b < lo {
			lo = b
		}
	}
	for h := lo; h <= tip; h++ {
		hdr, err := blocks.Header(ctx, h)
		if err != nil {
			// the chain may have been shortened by the other thread between LastHeight and here
			if h > blocks.LastHeight() {
				return
			}
			c.Violate("query-error", where, "Header(%d) fails with tip %d: %v", h, tip, err)
			return
		}
		hash := hdr.BlockHash()
		if h >= 1 && prev != nil && hdr.PrevBlock != *prev {
			if blocks.LastHeight() < h {
				return
			}
			c.Violate("link", where, "block at height %d (%s) has parent %s, the node holds %s at height %d", h, shortHash(*hash), shortHash(hdr.PrevBlock), shortHash(*prev), h-1)
			return
		}
		if hgt, ok := blocks.Height(hash); !ok || hgt != h {
			if blocks.LastHeight() < h {
				return
			}
			c.Violate("inverse", where, "Height(Hash(%d)) = %d,%v", h, hgt, ok)
			return
		}
		prev = hash
	}
	for _, b := range ns.Tree.Blocks {
		hh := b.Hash
		hgt, ok := blocks.Height(&hh)
		cont := blocks.Contains(&hh)
		if ok != cont {
			c.Violate("inverse", where, "Contains(%s)=%v but Height exists=%v", b, cont, ok)
			return
		}
		if ok && (hgt >= lo || b.Height >= lo) {
			got, err := blocks.Hash(ctx, hgt)
			if err != nil || *got != b.Hash {
				if blocks.LastHeight() < hgt {
					continue
				}
				c.Violate("inverse", where, "Height(%s)=%d but Hash(%d)=%v (err %v)", b, hgt, hgt, got, err)
				return
			}
		}
	}
}

func (r *c02run) onHeaders(h *client.Headers) {
	c := r.c
	if len(h.Headers) == 0 {
		return
	}
	height := int(h.StartHeight)
	hdr := h.Headers[0]
	hash := *hdr.BlockHash()
	r.c.Probe("announced")
	// parent: what was announced at height-1, else what the node holds there
	var parent *bitcoin.Hash32
	if p, ok := r.ann[height-1]; ok {
		parent = &p
	} else if ph, err := r.ns.Node.VerifBlocks().Hash(quietCtx(), height-1); err == nil {
		parent = ph
	}
	if height >= 1 && parent != nil && hdr.PrevBlock != *parent {
		c.Violate("link", "HandleHeaders", "HandleHeaders announced %s at height %d whose parent is %s; the block at height %d is %s", shortHash(hash), height, shortHash(hdr.PrevBlock), height-1, shortHash(*parent))
	}
	if r.anyAnnounce {
		if height == r.top+1 {
			// extension
		} else if height <= r.top {
			c.Probe("announce_reorg")
			for k := height; k <= r.top; k++ {
				delete(r.ann, k)
			}
		} else {
			c.Violate("contiguity", "HandleHeaders", "HandleHeaders announced height %d after height %d (gap)", height, r.top)
		}
	}
	r.ann[height] = hash
	r.top = height
	r.anyAnnounce = true
	// what is announced must be what the node holds at that height right now
	if got, err := r.ns.Node.VerifBlocks().Hash(quietCtx(), height); err != nil || *got != hash {
		c.Violate("announce-mismatch", "HandleHeaders", "HandleHeaders announced %s at height %d but the node holds %v there (err %v)", shortHash(hash), height, got, err)
	}
	r.invariants("in-callback")
}

func runC02(c *Ctx) {
	t := c.Scen
	ns := NewNodeSim(c)
	ns.S.PreemptDen = uint32(pickFrom(t, 0, 2, 3, 4, 8))
	maybeStalls(c, ns.S, 2, 10, 50)
	r := &c02run{c: c, ns: ns, ann: map[int]bitcoin.Hash32{}, top: -1}
	// tree: an initial chain and a few branches
	pre := pickFrom(t, 0, 1, 3, 6)
	if t.Bool(1, 16) {
		pre = pickFrom(t, 990, 994, 997, 998, 999) // the stored chain crosses a 1000-header file boundary
		c.Probe("file_boundary")
	}
	tip := ns.BuildChain(ns.Tree.Genesis, pre, nil)
	ns.Start = ns.BuildChain(tip, 1, nil)
	main := ns.BuildChain(ns.Start, 2+int(t.Choose(8)), nil)
	ns.Trusted.Best = main
	nb := 1 + int(t.Choose(3))
	lowest := 1
	if pre > 20 {
		lowest = pre - 6 // branch points and Byzantine material near the tip, not hundreds of blocks deep
	}
	for i := 0; i < nb; i++ {
		from := ns.Tree.Blocks[lowest+int(t.Choose(uint32(len(ns.Tree.Blocks)-lowest)))]
		ns.BuildChain(from, 1+int(t.Choose(6)), nil)
	}
	all := ns.Tree.Blocks[lowest-1:]
	unknownHdr := func() *wire.BlockHeader {
		prev := dsha([]byte(fmt.Sprint("unknown-parent", t.Choose(1000))))
		return &wire.BlockHeader{Version: 1, PrevBlock: prev, MerkleRoot: dsha([]byte("x")), Timestamp: 1700000000, Bits: 0x1d00ffff, Nonce: t.Choose(1 << 30)}
	}
	genHeaders := func() *wire.MsgHeaders {
		hm := wire.NewMsgHeaders()
		b := all[t.Choose(uint32(len(all)))]
		chain := Chain(b)
		if len(chain) > 40 {
			chain = chain[len(chain)-20:]
		}
		lo := int(t.Choose(uint32(len(chain))))
		seg := chain[lo:]
		if len(seg) > 12 {
			seg = seg[:12]
		}
		var hs []*wire.BlockHeader
		for _, x := range seg {
			h := x.Header
			hs = append(hs, &h)
		}
		switch t.Choose(8) {
		case 0: // shuffled
			for i := len(hs) - 1; i > 0; i-- {
				j := int(t.Choose(uint32(i + 1)))
				hs[i], hs[j] = hs[j], hs[i]
			}
		case 1: // gap
			if len(hs) > 2 {
				k := 1 + int(t.Choose(uint32(len(hs)-2)))
				hs = append(hs[:k], hs[k+1:]...)
			}
		case 2: // duplicated entry
			if len(hs) > 0 {
				k := int(t.Choose(uint32(len(hs))))
				hs = append(hs[:k+1], hs[k:]...)
			}
		case 3: // unknown parent somewhere
			k := int(t.Choose(uint32(len(hs) + 1)))
			hs = append(hs[:k], append([]*wire.BlockHeader{unknownHdr()}, hs[k:]...)...)
		case 4: // headers of two branches mixed
			o := all[t.Choose(uint32(len(all)))]
			h := o.Header
			hs = append(hs, &h)
		case 5: // a sibling in the middle: ..., A, B, B'(parent A), C(parent B), ...
			if len(seg) > 2 {
				k := 1 + int(t.Choose(uint32(len(seg)-2)))
				sib := ns.BuildChain(seg[k-1], 1, nil).Header
				hs = append(hs[:k+1], append([]*wire.BlockHeader{&sib}, hs[k+1:]...)...)
				c.Probe("sibling_inside_headers")
			}
		}
		for _, h := range hs {
			hm.AddBlockHeader(h)
		}
		return hm
	}
	honestRate := uint32(pickFrom(t, 300, 600, 850))
	ns.Trusted.PingEvery = 500 * time.Millisecond
	ns.Trusted.Hook = func(pc *PeerConn, msg wire.Message) bool {
		switch m := msg.(type) {
		case *wire.MsgGetHeaders:
			if t.Choose(1000) < honestRate {
				return false
			}
			c.Probe("byz_headers_response")
			switch t.Choose(3) {
			case 0:
				pc.Send(wire.NewMsgHeaders())
			default:
				pc.Send(genHeaders())
			}
			return true
		case *wire.MsgGetData:
			if t.Choose(1000) < honestRate {
				return false
			}
			c.Probe("byz_block_response")
			var blocks []*WBlock
			for _, iv := range m.InvList {
				if iv.Type == wire.InvTypeBlock {
					if b, ok := ns.Tree.ByHash[iv.Hash]; ok {
						blocks = append(blocks, b)
					}
				}
			}
			for i := len(blocks) - 1; i > 0; i-- {
				j := int(t.Choose(uint32(i + 1)))
				blocks[i], blocks[j] = blocks[j], blocks[i]
			}
			for _, b := range blocks {
				switch t.Choose(5) {
				case 0: // never delivered
				case 1:
					pc.Send(b.MsgBlock(false))
					pc.Send(b.MsgBlock(false))
				case 2: // another block instead
					pc.Send(all[t.Choose(uint32(len(all)))].MsgBlock(false))
				default:
					pc.Send(b.MsgBlock(false))
				}
			}
			return true
		}
		return false
	}
	ns.OnHeaders = r.onHeaders
	steps := 5 + int(t.Choose(40))
	c.Res.Summary = fmt.Sprintf("pre=%d tree=%d blocks, %d branches, honest=%d/1000, unsolicited steps=%d, preempt=1/%d", pre, len(all), nb, honestRate, steps, ns.S.PreemptDen)
	c.FaultConfigured("F-peer-byz")
	done := false
	simrt.Go("driver", func() {
		defer func() { done = true }()
		ns.StartNode()
		stopMon := false
		simrt.GoDaemon("invariant-monitor", func() {
			for !stopMon {
				simrt.Sleep(time.Duration(5+t.Choose(40)) * time.Millisecond)
				simrt.NoPreempt(func() { r.invariants("monitor") })
			}
		})
		for i := 0; i < steps; i++ {
			simrt.Sleep(time.Duration(t.Choose(400)) * time.Millisecond)
			pc := ns.Trusted.Live()
			if pc == nil || !pc.VerackSeen {
				continue
			}
			c.FaultFired("F-peer-byz")
			switch t.Choose(6) {
			case 0:
				pc.Send(wire.NewMsgHeaders())
			case 1, 2, 3:
				pc.Send(genHeaders())
			case 4:
				pc.Send(all[t.Choose(uint32(len(all)))].MsgBlock(false))
			default:
				// the peer's best chain moves to another branch tip and is announced honestly
				ns.Trusted.SetBest(all[t.Choose(uint32(len(all)))])
			}
		}
		simrt.Sleep(5 * time.Second)
		stopMon = true
		simrt.NoPreempt(func() { r.invariants("final") })
		c.ProbeN("invariant_checks", r.checks)
		c.Res.Nontrivial = true
	})
	ns.S.Run(func() bool { return done })
	if !done && len(c.Res.Violations) == 0 && c.Res.Inconclusive == "" && !ns.S.Zeno && !ns.S.StepCap {
		c.Res.Inconclusive = "driver-stuck"
	}
	reportPanics(c, ns)
}

func init() {
	real := []string{"internal/spynode.Node (Run, block processor)", "internal/handlers (headers, block)", "internal/state (request queue)", "internal/storage.BlockRepository", "pkg/wire framing"}
	Register(&Check{Prop: "C02", Sub: "byzantine-trusted", Weight: 1, Real: real, Stub: txStub,
		Req:  []string{"announced", "invariant_checks", "announce_reorg", "byz_headers_response", "byz_block_response"},
		Rule: "after an honest handshake the trusted peer answers header and block requests Byzantine-ly with tape-chosen probability and sends unsolicited messages: headers lists drawn from a multi-branch tree in order / shuffled / with gaps / duplicated / with unknown parents / mixing branches / with a sibling of an entry right behind it, empty headers, blocks requested or not, twice, swapped, never; interleaved by the scheduler with the node's own block processing. Invariants are evaluated every 5-45 simulated ms, inside every HandleHeaders callback and at the end; every run is non-trivial.",
		Run:  runC02})
}
