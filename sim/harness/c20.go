//go:build go1.26

package verifsim

import (
	"bufio"
	"bytes"
	"encoding/hex"
	"flag"
	"fmt"
	"os"
	"os/exec"
	"runtime"
	"strconv"
	"strings"
	"time"
	"testing"

	"github.com/tokenized/pkg/bitcoin"
	"github.com/tokenized/pkg/wire"
	"github.com/tokenized/spynode/internal/platform/config"
	"github.com/tokenized/spynode/internal/storage"
	"github.com/tokenized/spynode/pkg/client"
)

// ---- C20: decoding hostile bytes fails cleanly ---------------------------------------------------
//
// Cases are decoded in a child process (this same test binary, TestC20Child) so that a decode
// that exhausts memory kills the child, not the check: the parent then reports the case the child
// died on. The child measures bytes allocated per decode (runtime.MemStats.TotalAlloc).

var flagC20File = flag.String("c20file", "", "case file for the C20 child process")
var flagC20Skip = flag.Int("c20skip", 0, "number of cases of the file to skip")
var flagC20Count = flag.Int("c20count", 0, "number of cases to decode (0: all that remain)")
var flagC20HangS = flag.Int("c20hang", 10, "seconds after which a decode counts as not returning")

const c20AllocBase = 16 << 20
const c20AllocPerByte = 256

type c20case struct {
	kind string // message | tx-record | peers | reorg-active | reorg-list | unconfirmed | blocks | block-txids
	data []byte
	note string
	// where the hostile value was planted and which byte range is decoded by a dependency of the
	// repository (transaction bodies and spent outputs by wire, expanded transactions by bsor);
	// -1: unknown
	plantOff, txFrom, txTo int
	dep                    string
}

// c20decode runs one case through the real decoding path. It must not be called in the parent.
func c20decode(cs c20case) (err error) {
	ctx := quietCtx()
	switch cs.kind {
	case "skip":
		return nil
	case "message":
		m := &client.Message{}
		return m.Deserialize(bytes.NewReader(cs.data))
	case "tx-record":
		disk := NewSimDisk()
		var id bitcoin.Hash32
		disk.Put(fmt.Sprintf("spynode/txs/state/%s", id), cs.data)
		_, err := storage.FetchTxState(ctx, disk, id)
		return err
	case "peers":
		disk := NewSimDisk()
		disk.Put("spynode/peers", cs.data)
		repo := storage.NewPeerRepository(disk)
		repo.Load(ctx)
		return repo.Load(ctx) // the object stays usable after a failed load
	case "reorg-active":
		disk := NewSimDisk()
		disk.Put("spynode/reorgs/active", cs.data)
		repo := storage.NewReorgRepository(disk)
		repo.GetActive(ctx)
		_, err := repo.GetActive(ctx)
		return err
	case "reorg-list":
		disk := NewSimDisk()
		disk.Put("spynode/reorgs/0011", cs.data)
		repo := storage.NewReorgRepository(disk)
		repo.List(ctx)
		_, err := repo.List(ctx)
		return err
	case "unconfirmed":
		disk := NewSimDisk()
		disk.Put("spynode/txs/unconfirmed", cs.data)
		repo := storage.NewTxRepository(disk)
		repo.Load(ctx)
		return repo.Load(ctx)
	case "blocks":
		disk := NewSimDisk()
		disk.Put("spynode/blocks/00000000", cs.data)
		return storage.NewBlockRepository(config.Config{Net: bitcoin.MainNet}, disk).Load(ctx)
	case "block-txids":
		disk := NewSimDisk()
		disk.Put(fmt.Sprintf("spynode/txs/%08x", 5), cs.data)
		repo := storage.NewTxRepository(disk)
		// twice: a failed read must leave the repository usable (no lock left held)
		for k := 0; k < 2; k++ {
			if _, err = repo.GetBlock(ctx, 5); err == nil {
				repo.ReleaseBlock(ctx, 5)
			}
		}
		return err
	}
	return fmt.Errorf("unknown case kind %s", cs.kind)
}

// TestC20Child decodes the cases of -c20file and reports one line per case.
func TestC20Child(t *testing.T) {
	if *flagC20File == "" {
		t.Skip("not a child")
	}
	f, err := os.Open(*flagC20File)
	if err != nil {
		fmt.Println("CHILD-ERROR", err)
		os.Exit(2)
	}
	defer f.Close()
	sc := bufio.NewScanner(f)
	sc.Buffer(make([]byte, 1<<20), 64<<20)
	out := bufio.NewWriter(os.Stdout)
	var ms runtime.MemStats
	i := 0
	line := 0
	for sc.Scan() {
		line++
		if line <= *flagC20Skip {
			continue
		}
		parts := strings.SplitN(sc.Text(), " ", 2)
		if len(parts) != 2 {
			continue
		}
		data, _ := hex.DecodeString(parts[1])
		fmt.Fprintf(out, "S %d\n", i)
		out.Flush()
		runtime.ReadMemStats(&ms)
		before := ms.TotalAlloc
		p := ""
		doneCh := make(chan struct{})
		go func() {
			p = guard(func() { c20decode(c20case{kind: parts[0], data: data}) })
			close(doneCh)
		}()
		select {
		case <-doneCh:
		case <-time.After(time.Duration(*flagC20HangS) * time.Second):
			// decoding does not return: report and let the parent restart behind this case
			fmt.Fprintf(out, "H %d\n", i)
			out.Flush()
			os.Exit(0)
		}
		runtime.ReadMemStats(&ms)
		alloc := ms.TotalAlloc - before
		if p != "" {
			fmt.Fprintf(out, "P %d %d %s\n", i, alloc, strings.ReplaceAll(p, "\n", " "))
		} else {
			fmt.Fprintf(out, "D %d %d\n", i, alloc)
		}
		i++
		if *flagC20Count > 0 && i >= *flagC20Count {
			break
		}
	}
	out.Flush()
}

// hostile values to plant at every offset
var c20varints = [][]byte{
	{0xfd, 0xff, 0xff}, {0xfe, 0xff, 0xff, 0xff, 0x7f}, {0xfe, 0x00, 0x00, 0x00, 0x80}, {0xfe, 0xff, 0xff, 0xff, 0xff},
	{0xff, 0x00, 0x00, 0x00, 0x00, 0x01, 0x00, 0x00, 0x00}, {0xff, 0xff, 0xff, 0xff, 0xff, 0xff, 0xff, 0xff, 0x7f},
	{0xff, 0xff, 0xff, 0xff, 0xff, 0xff, 0xff, 0xff, 0xff}, {0xfe, 0x00, 0x00, 0x10, 0x00},
}
var c20fixed32 = [][]byte{{0xff, 0xff, 0xff, 0x7f}, {0x00, 0x00, 0x00, 0x80}, {0xff, 0xff, 0xff, 0xff}, {0x00, 0x00, 0x10, 0x00}, {0xff, 0xff, 0x00, 0x00}}

func plant(enc []byte, off int, v []byte) []byte {
	out := append([]byte(nil), enc[:off]...)
	out = append(out, v...)
	if off+len(v) < len(enc) {
		out = append(out, enc[off+len(v):]...)
	}
	return out
}

// validRecords builds valid stored records through the real repositories.
func validRecords(g *msgGen) map[string][]byte {
	ctx := quietCtx()
	out := map[string][]byte{}
	disk := NewSimDisk()
	peers := storage.NewPeerRepository(disk)
	for i := 0; i < 3; i++ {
		peers.Add(ctx, fmt.Sprintf("[::ffff:10.2.0.%d]:8333", i+1))
	}
	peers.Save(ctx)
	out["peers"], _ = disk.Get("spynode/peers")
	reorgs := storage.NewReorgRepository(disk)
	re := storage.Reorg{BlockHeight: 7}
	for i := 0; i < 2; i++ {
		rb := storage.ReorgBlock{Header: *g.header()}
		rb.TxIds = append(rb.TxIds, g.hash(), g.hash())
		re.Blocks = append(re.Blocks, rb)
	}
	reorgs.Save(ctx, &re)
	out["reorg-active"], _ = disk.Get("spynode/reorgs/active")
	out["reorg-list"] = out["reorg-active"]
	txs := storage.NewTxRepository(disk)
	for i := 0; i < 3; i++ {
		txs.Add(ctx, g.hash(), i%2 == 0, i == 1, -1)
	}
	txs.Save(ctx)
	out["unconfirmed"], _ = disk.Get("spynode/txs/unconfirmed")
	tx := g.payload(client.MessageTypeTx).(*client.Tx)
	storage.SaveTxState(ctx, disk, tx)
	out["tx-record"], _ = disk.Get(fmt.Sprintf("spynode/txs/state/%s", tx.Tx.TxHash()))
	blocks := storage.NewBlockRepository(config.Config{Net: bitcoin.MainNet}, disk)
	blocks.Load(ctx)
	prev := *blocks.LastHash()
	for i := 0; i < 3; i++ {
		h := wire.BlockHeader{Version: 1, PrevBlock: prev, MerkleRoot: g.hash(), Timestamp: uint32(1600000000 + i), Bits: 1}
		blocks.Add(ctx, &h)
		prev = *h.BlockHash()
	}
	blocks.Save(ctx)
	out["blocks"], _ = disk.Get("spynode/blocks/00000000")
	var ids []byte
	for i := 0; i < 3; i++ {
		h := g.hash()
		ids = append(ids, h[:]...)
	}
	out["block-txids"] = ids
	return out
}

func c20cases(c *Ctx) []c20case {
	t := c.Scen
	g := newMsgGen(t)
	var cases []c20case
	txFrom, txTo, plantOff := -1, -1, -1
	add := func(kind string, data []byte, note string) {
		cases = append(cases, c20case{kind: kind, data: data, note: note, plantOff: plantOff, txFrom: txFrom, txTo: txTo})
	}
	txRange := func(enc []byte, tx *wire.MsgTx) {
		txFrom, txTo = -1, -1
		if tx == nil {
			return
		}
		b := txBytes(tx)
		if i := bytes.Index(enc, b); i >= 0 {
			txFrom, txTo = i, i+len(b)
		}
	}
	// messages: a few valid encodings of random types, hostile values planted at every offset
	nmsg := 6
	if c.Tier == "thorough" {
		nmsg = 14
	}
	for k := 0; k < nmsg; k++ {
		typ := allMessageTypes[(c.Run*nmsg+k)%len(allMessageTypes)]
		var enc []byte
		var pl client.MessagePayload
		for tries := 0; tries < 20; tries++ {
			p := g.payload(typ)
			e, err := encodeMessage(p)
			if err == nil && len(e) <= 400 {
				enc, pl = e, p
				break
			}
		}
		if enc == nil {
			continue
		}
		switch x := pl.(type) {
		case *client.BaseTx:
			txRange(enc, x.Tx)
		case *client.Tx:
			txRange(enc, x.Tx)
			for _, o := range x.Outputs { // the spent outputs that follow are decoded by wire too
				txTo += o.SerializeSize()
			}
		case *client.SaveTxs:
			txFrom, txTo = 1, len(enc) // the whole payload is one bsor script
		case *client.SendExpandedTx:
			if sb, err := bsorLen(x); err == nil {
				txFrom, txTo = 1, 1+sb
			}
		case *client.SendTx:
			txRange(enc, x.Tx)
		case *client.PostMerkleProofs:
			if len(x.MerkleProofs) > 0 {
				txFrom, txTo = 2, len(enc) // the proofs are decoded by the merkle_proof dependency
			} else {
				txRange(enc, nil)
			}
		default:
			txRange(enc, nil)
		}
		name := client.NameForMessageType(typ)
		for off := 1; off < len(enc); off++ {
			plantOff = off
			inDep := txFrom >= 0 && off < txTo
			for vi, v := range c20varints {
				// regions decoded by a dependency are an open finding: sample them thinly (the
				// decoding process dies on most of these cases, which is slow)
				if inDep && (off%16 != 1 || vi%3 != 1) {
					continue
				}
				add("message", plant(enc, off, v), fmt.Sprintf("%s/offset=%d/value=%d", name, off, vi))
			}
		}
		plantOff = -1
		for i := 0; i < 60; i++ { // bit flips
			cp := append([]byte(nil), enc...)
			cp[t.Choose(uint32(len(cp)))] ^= 1 << t.Choose(8)
			add("message", cp, name+"/bitflip")
		}
		for cut := 0; cut < len(enc); cut++ {
			add("message", enc[:cut], name+"/truncated")
		}
	}
	// random strings behind every valid type code
	for _, typ := range allMessageTypes {
		for i := 0; i < 4; i++ {
			var buf bytes.Buffer
			wire.WriteVarInt(&buf, 0, typ)
			tail := g.bytes(int(t.Choose(120)))
			if t.Bool(1, 2) && len(tail) > 9 {
				copy(tail[t.Choose(uint32(len(tail)-9)):], c20varints[t.Choose(uint32(len(c20varints)))])
			}
			buf.Write(tail)
			add("message", buf.Bytes(), client.NameForMessageType(typ)+"/random-tail")
		}
	}
	// messages that really carry more elements than any up-front allocation: whole, and cut short
	txFrom, txTo, plantOff = -1, -1, -1
	{
		n := 4090 + int(t.Choose(1200))
		var big []client.MessagePayload
		switch c.Run % 5 {
		case 0:
			m := &client.ReprocessTx{TxID: g.hash()}
			for i := 0; i < n; i++ {
				var id bitcoin.Hash20
				id[0], id[1] = byte(i), byte(i>>8)
				m.ClientIDs = append(m.ClientIDs, id)
			}
			big = append(big, m)
		case 1:
			m := &client.SubscribeTx{TxID: g.hash()}
			for i := 0; i < n; i++ {
				m.Indexes = append(m.Indexes, uint32(i))
			}
			big = append(big, m)
		case 2:
			m := &client.SubscribeOutputs{}
			for i := 0; i < n; i++ {
				h := g.hash()
				m.Outputs = append(m.Outputs, wire.NewOutPoint(&h, uint32(i)))
			}
			big = append(big, m)
		case 3:
			m := &client.SubscribePushData{}
			for i := 0; i < n; i++ {
				m.PushDatas = append(m.PushDatas, []byte{byte(i), byte(i >> 8)})
			}
			big = append(big, m, &client.UnsubscribePushData{PushDatas: m.PushDatas})
		default:
			m := &client.Headers{RequestHeight: 5, StartHeight: 5}
			for i := 0; i < n; i++ {
				m.Headers = append(m.Headers, &wire.BlockHeader{Version: 1, MerkleRoot: g.hash(), Timestamp: uint32(1600000000 + i), Bits: 0x1d00ffff, Nonce: uint32(i)})
			}
			big = append(big, m)
		}
		for _, m := range big {
			if enc, err := encodeMessage(m); err == nil {
				name := client.NameForMessageType(m.Type())
				add("message", enc, name+"/really-large-list")
				add("message", enc[:len(enc)-1-int(t.Choose(uint32(len(enc)/2)))], name+"/really-large-list-truncated")
			}
		}
	}
	// stored records
	txFrom, txTo, plantOff = -1, -1, -1
	recs := validRecords(g)
	for _, kind := range []string{"peers", "reorg-active", "reorg-list", "unconfirmed", "tx-record", "blocks", "block-txids"} {
		rec := recs[kind]
		add(kind, rec, kind+"/valid")
		limit := len(rec)
		if limit > 260 {
			limit = 260
		}
		if kind == "tx-record" {
			// the record starts with the transaction body
			var x client.Tx
			if err := x.Deserialize(bytes.NewReader(rec)); err == nil {
				txRange(rec, x.Tx)
				for _, o := range x.Outputs {
					txTo += o.SerializeSize()
				}
			}
		} else {
			txFrom, txTo = -1, -1
		}
		for off := 0; off < limit; off++ {
			plantOff = off
			inDep := kind == "tx-record" && txFrom >= 0 && off < txTo
			for vi, v := range c20fixed32 {
				if inDep && (off%16 != 1 || vi != 1) {
					continue
				}
				add(kind, plant(rec, off, v), fmt.Sprintf("%s/offset=%d/fixed32=%d", kind, off, vi))
			}
			if kind == "tx-record" {
				for vi, v := range c20varints {
					if inDep && (off%16 != 1 || vi%3 != 1) {
						continue
					}
					add(kind, plant(rec, off, v), fmt.Sprintf("%s/offset=%d/value=%d", kind, off, vi))
				}
			}
		}
		plantOff = -1
		for cut := 0; cut < len(rec) && cut < 400; cut++ {
			add(kind, rec[:cut], kind+"/truncated")
		}
		for i := 0; i < 40; i++ {
			cp := append([]byte(nil), rec...)
			if len(cp) > 0 {
				cp[t.Choose(uint32(len(cp)))] ^= 1 << t.Choose(8)
			}
			add(kind, cp, kind+"/bitflip")
		}
	}
	return cases
}

// c20class derives the violation key from the decoding path and what was planted, never from the
// seed. Transaction bodies are decoded by the wire package of the tokenized/pkg dependency; what
// fails inside a transaction body is keyed "dep:wire.MsgTx" so that it can be listed as a finding
// outside this repository without hiding failures of the repository's own decoders.
func c20class(cs c20case) string {
	parts := strings.Split(cs.note, "/")
	what := parts[len(parts)-1]
	if strings.HasPrefix(what, "value=") || strings.HasPrefix(what, "fixed32=") {
		what = "huge-count"
	}
	name := parts[0]
	dep := ""
	// the planted value is up to nine bytes long: it reaches into the region from before it
	// and a value planted in a field before the region shifts where the region starts
	inRegion := cs.txFrom < 0 || what != "huge-count" || cs.plantOff < cs.txTo
	if cs.kind == "message" && len(cs.data) > 0 {
		// the type actually on the wire (a bit flip may have changed it)
		if typ, err := wire.ReadVarInt(bytes.NewReader(cs.data), 0); err == nil {
			name = client.NameForMessageType(typ)
			switch typ {
			case client.MessageTypeBaseTx, client.MessageTypeTx, client.MessageTypeSendTx:
				if inRegion {
					dep = "wire.MsgTx"
				}
			case client.MessageTypeSaveTxs, client.MessageTypeSendExpandedTx:
				if inRegion {
					dep = "bsor"
				}
			case client.MessageTypePostMerkleProofs:
				if inRegion {
					dep = "merkle_proof"
				}
			}
		}
	}
	if cs.kind == "tx-record" && inRegion {
		dep = "wire.MsgTx"
	}
	if dep != "" {
		return "dep:" + dep + "/" + what
	}
	return cs.kind + ":" + name + "/" + what
}

func runC20(c *Ctx) {
	cases := c20cases(c)
	c.Res.Summary = fmt.Sprintf("%d hostile encodings (planted counts at every offset, bit flips, truncations, random tails; messages and stored records)", len(cases))
	dir, err := os.MkdirTemp("", "c20")
	if err != nil {
		c.Res.Inconclusive = "tempdir"
		return
	}
	defer os.RemoveAll(dir)
	next := 0
	hangs := map[string]int{}
	worst := uint64(0)
	path := dir + "/cases"
	{
		var buf bytes.Buffer
		for _, cs := range cases {
			fmt.Fprintf(&buf, "%s %s\n", cs.kind, hex.EncodeToString(cs.data))
		}
		os.WriteFile(path, buf.Bytes(), 0o644)
	}
	for next < len(cases) {
		cmd := exec.Command(os.Args[0], "-test.run", "^TestC20Child$", "-test.timeout", "0", "-c20file", path, "-c20skip", strconv.Itoa(next))
		cmd.Env = append(os.Environ(), "GOMAXPROCS=1", "GOMEMLIMIT=off")
		outp, _ := cmd.Output()
		started, finished := -1, -1
		hung := false
		for _, line := range strings.Split(string(outp), "\n") {
			f := strings.SplitN(line, " ", 4)
			if len(f) < 2 {
				continue
			}
			i, _ := strconv.Atoi(f[1])
			switch f[0] {
			case "H":
				hung = true
			case "S":
				started = i
			case "D", "P":
				finished = i
				cs := cases[next+i]
				c.NoteCase(true, cs.kind+hex.EncodeToString(cs.data))
				alloc, _ := strconv.ParseUint(f[2], 10, 64)
				if alloc > worst {
					worst = alloc
				}
				if f[0] == "P" {
					msg := ""
					if len(f) > 3 {
						msg = f[3]
					}
					c.Violate("panic", c20class(cs), "decoding panicked (%s): %s; input %d bytes: %s", cs.note, msg, len(cs.data), hexHead(cs.data))
				} else if alloc > uint64(c20AllocBase+c20AllocPerByte*len(cs.data)) {
					c.Violate("alloc", c20class(cs), "decoding %d input bytes allocated %d bytes (%s); input: %s", len(cs.data), alloc, cs.note, hexHead(cs.data))
				}
			}
		}
		if finished == len(cases)-next-1 {
			break
		}
		// the child died inside case `started`
		if started < 0 || started <= finished {
			c.Res.Inconclusive = "child-failed"
			return
		}
		cs := cases[next+started]
		c.NoteCase(true, cs.kind+hex.EncodeToString(cs.data))
		tail := string(outp)
		if len(tail) > 300 {
			tail = tail[len(tail)-300:]
		}
		if !strings.HasPrefix(c20class(cs), "dep:") {
			// a decode of spynode's own that exceeded ten seconds of wall clock or whose process
			// died: the machine may be starved (sixteen workers, dependency decoders allocating
			// gigabytes next door), so the case is decoded once more, alone, with two minutes,
			// before it is called a hang or a fatal allocation
			confirmed := true
			again := exec.Command(os.Args[0], "-test.run", "^TestC20Child$", "-test.timeout", "0", "-c20file", path,
				"-c20skip", strconv.Itoa(next+started), "-c20count", "1", "-c20hang", "120")
			again.Env = append(os.Environ(), "GOMAXPROCS=1", "GOMEMLIMIT=off")
			o2, _ := again.Output()
			for _, line := range strings.Split(string(o2), "\n") {
				f := strings.SplitN(line, " ", 4)
				if len(f) < 3 || (f[0] != "D" && f[0] != "P") {
					continue
				}
				confirmed = false
				c.Probe("slow_decode_not_a_hang")
				alloc, _ := strconv.ParseUint(f[2], 10, 64)
				if f[0] == "P" {
					msg := ""
					if len(f) > 3 {
						msg = f[3]
					}
					c.Violate("panic", c20class(cs), "decoding panicked (%s): %s; input %d bytes: %s", cs.note, msg, len(cs.data), hexHead(cs.data))
				} else if alloc > uint64(c20AllocBase+c20AllocPerByte*len(cs.data)) {
					c.Violate("alloc", c20class(cs), "decoding %d input bytes allocated %d bytes (%s); input: %s", len(cs.data), alloc, cs.note, hexHead(cs.data))
				}
			}
			if !confirmed {
				next += started + 1
				continue
			}
		}
		if hung {
			hangs[cs.kind]++
			if hangs[cs.kind] == 3 {
				// this kind of record hangs again and again: do not spend ten seconds on each of
				// the remaining ones
				for i := next + started + 1; i < len(cases); i++ {
					if cases[i].kind == cs.kind {
						cases[i].kind = "skip"
					}
				}
				var buf bytes.Buffer
				for _, x := range cases {
					fmt.Fprintf(&buf, "%s %s\n", x.kind, hex.EncodeToString(x.data))
				}
				os.WriteFile(path, buf.Bytes(), 0o644)
			}
			c.Violate("hang", c20class(cs), "decoding %d input bytes (%s) did not return within 10 s (the second use of the same repository object after a failed decode counts): input: %s", len(cs.data), cs.note, hexHead(cs.data))
			next += started + 1
			continue
		}
		c.Violate("alloc-fatal", c20class(cs), "the decoding process died while decoding %d input bytes (%s): out of memory or unrecoverable fault; input: %s", len(cs.data), cs.note, hexHead(cs.data))
		next += started + 1
	}
	c.ProbeN("worst_alloc_kib", int(worst>>10))
	c.Probe("batch_decoded")
	c.Res.Nontrivial = true
}

func hexHead(b []byte) string {
	if len(b) > 48 {
		return hex.EncodeToString(b[:48]) + "..."
	}
	return hex.EncodeToString(b)
}

func init() {
	Register(&Check{Prop: "C20", Sub: "hostile-bytes", Weight: 1, NoBubble: true,
		Real: []string{"pkg/client Message.Deserialize and all payload deserializers", "internal/storage loaders: PeerRepository.Load, ReorgRepository.GetActive/List, TxRepository.Load/GetBlock, FetchTxState, BlockRepository.Load"},
		Stub: []string{"disk (simdisk holding the corrupted record)", "byte source (in-memory reader)"},
		Req:  []string{"batch_decoded"},
		Rule: "valid encodings of client messages (types cycled by run index) and of every stored record, with hostile count values (2^16-1 .. 2^64-1 as varint, 2^31-1 / 2^31 / 2^32-1 as fixed 32-bit) planted at EVERY byte offset, bit flips, every truncation, and random tails behind every valid type code; each decoded in a child process that reports panics and bytes allocated. evaluations = decodes; every case is non-trivial.",
		Run:  runC20})
}

// bsorLen returns the length of the length-prefixed bsor script at the start of a SendExpandedTx.
func bsorLen(m *client.SendExpandedTx) (int, error) {
	enc, err := encodeMessage(m)
	if err != nil {
		return 0, err
	}
	r := bytes.NewReader(enc[1:])
	n, err := wire.ReadVarInt(r, 0)
	if err != nil {
		return 0, err
	}
	return (len(enc) - 1 - r.Len()) + int(n), nil
}
