//go:build go1.26

package verifsim

import (
	"crypto/sha256"
	"fmt"
	"sort"
	"strings"
	"time"

	"github.com/tokenized/pkg/bitcoin"
	"github.com/tokenized/pkg/wire"
	"github.com/tokenized/spynode/internal/spynode"
	"github.com/tokenized/spynode/internal/storage"
	"github.com/tokenized/spynode/pkg/client"
	"golang.org/x/crypto/ripemd160"
	"verif.local/simrt"
)

// ---- independent relevance filter (the oracle for "matches the subscriptions") -----------------

func hash160(b []byte) [20]byte {
	a := sha256.Sum256(b)
	h := ripemd160.New()
	h.Write(a[:])
	var out [20]byte
	copy(out[:], h.Sum(nil))
	return out
}

// scriptPushes walks a script byte by byte and returns every complete data push before the first
// malformation (a push whose length runs past the end, or a truncated length field).
func scriptPushes(s []byte) [][]byte {
	var out [][]byte
	i := 0
	for i < len(s) {
		op := s[i]
		i++
		n := -1
		switch {
		case op >= 1 && op <= 75:
			n = int(op)
		case op == 0x4c:
			if i+1 > len(s) {
				return out
			}
			n = int(s[i])
			i++
		case op == 0x4d:
			if i+2 > len(s) {
				return out
			}
			n = int(s[i]) | int(s[i+1])<<8
			i += 2
		case op == 0x4e:
			if i+4 > len(s) {
				return out
			}
			n = int(uint32(s[i]) | uint32(s[i+1])<<8 | uint32(s[i+2])<<16 | uint32(s[i+3])<<24)
			i += 4
			if n < 0 {
				return out
			}
		default:
			continue // OP_0, small integers and every other opcode push no subscribed data
		}
		if n > len(s)-i {
			return out
		}
		if n > 0 {
			out = append(out, s[i:i+n])
		}
		i += n
	}
	return out
}

// refRelevant is the reference filter over a multiset of subscribed 20-byte values.
func refRelevant(tx *wire.MsgTx, subs map[[20]byte]int) bool {
	match := func(script []byte) bool {
		for _, p := range scriptPushes(script) {
			var k [20]byte
			if len(p) == 20 {
				copy(k[:], p)
			} else {
				k = hash160(p)
			}
			if subs[k] > 0 {
				return true
			}
		}
		return false
	}
	for _, o := range tx.TxOut {
		if match(o.LockingScript) {
			return true
		}
	}
	for _, in := range tx.TxIn {
		if match(in.UnlockingScript) {
			return true
		}
	}
	return false
}

// ---- transaction scenario ------------------------------------------------------------------------

type txDelivery struct {
	at   time.Duration // offset from the scenario origin (node in sync)
	src  string        // trusted | u<k> | send | handle
	kind string        // inv | tx
}

type txSpec struct {
	idx        int
	tx         *wire.MsgTx
	id         bitcoin.Hash32
	relevant   bool
	spends     []wire.OutPoint
	deliveries []txDelivery
	holders    map[string]bool // which peers will serve the body
	inBlock    int             // index into blocks, -1 = never
	// outageUntil > 0: the output service cannot answer for this transaction's inputs until this
	// offset; its first delivery is a body pushed by an untrusted peer inside the outage (the node
	// has to forget it), everything else comes later
	outageUntil time.Duration
}

type blockSpec struct {
	at  time.Duration
	txs []int // indexes into txs
}

type txScenario struct {
	txs         []*txSpec
	blocks      []blockSpec
	untrusted   int
	safeDelay   int // ms
	preemptDen  uint32
	latBase     time.Duration
	latJitter   time.Duration
	restartAt   time.Duration // 0 = none
	dropAt      time.Duration // 0 = none: the trusted peer closes its connection at this offset
	slowHandler bool
	reqMempool  bool
	horizon     time.Duration
	knobs       string
	subSetup    func(node *spynode.Node)
	rel         func(tx *wire.MsgTx) bool
}

func (sc *txScenario) String() string {
	var sb strings.Builder
	fmt.Fprintf(&sb, "%s untrusted=%d safeDelay=%dms preempt=1/%d lat=%v+%v restart=%v drop=%v txs=[", sc.knobs, sc.untrusted, sc.safeDelay, sc.preemptDen, sc.latBase, sc.latJitter, sc.restartAt, sc.dropAt)
	for _, t := range sc.txs {
		fmt.Fprintf(&sb, "T%d{rel=%v in=%d blk=%d", t.idx, t.relevant, len(t.spends), t.inBlock)
		if t.outageUntil > 0 {
			fmt.Fprintf(&sb, " outage<%v", t.outageUntil)
		}
		for _, d := range t.deliveries {
			fmt.Fprintf(&sb, " %s:%s@%v", d.src, d.kind, d.at)
		}
		sb.WriteString("} ")
	}
	sb.WriteString("] blocks=[")
	for i, b := range sc.blocks {
		fmt.Fprintf(&sb, "B%d@%v%v ", i, b.at, b.txs)
	}
	sb.WriteString("]")
	return sb.String()
}

// txGenOpts biases the generator towards what a property needs.
type txGenOpts struct {
	conflicts   int // 0 none, 1 some, 2 many
	blocks      bool
	untrusted   bool
	restart     bool
	chains      bool
	local       bool
	safeDelays  []int
	maxTxs      int
	silentPeers bool // some announcements are never honoured
	blockConflicts bool // blocks may confirm a tx that conflicts with an unconfirmed one not in the block
	dropConn bool // the trusted connection may be lost once (the node reconnects and catches up while not in sync)
	outage   bool // some transactions are first pushed by an untrusted peer while their inputs cannot be fetched
	// C08: custom scripts and subscriptions
	prepare  func(ns *NodeSim)
	mkTx     func(w *TxWorld, spends []wire.OutPoint, nOut int) (*wire.MsgTx, bool)
	subSetup func(node *spynode.Node)
	rel      func(tx *wire.MsgTx) bool
}

var subKey = []byte("subscribed-key-000001")[:20]

func genTxScenario(c *Ctx, w *TxWorld, o txGenOpts) *txScenario {
	t := c.Scen
	sc := &txScenario{subSetup: o.subSetup, rel: o.rel}
	if o.untrusted {
		sc.untrusted = pickFrom(t, 0, 1, 2, 3)
	}
	if len(o.safeDelays) == 0 {
		o.safeDelays = []int{0, 50, 500, 2000, 5000}
	}
	sc.safeDelay = o.safeDelays[t.Choose(uint32(len(o.safeDelays)))]
	sc.preemptDen = uint32(pickFrom(t, 0, 2, 3, 4, 8, 16))
	sc.latBase = time.Duration(pickFrom(t, 1, 2, 5, 20, 80)) * time.Millisecond
	sc.latJitter = time.Duration(pickFrom(t, 0, 1, 5, 30, 100)) * time.Millisecond
	sc.slowHandler = t.Bool(1, 6)
	if o.maxTxs == 0 {
		o.maxTxs = 10
	}
	n := 1 + int(t.Choose(uint32(o.maxTxs)))
	nOut := 2 + int(t.Choose(5))
	var ops []wire.OutPoint
	for i := 0; i < nOut; i++ {
		ops = append(ops, w.Fund(uint64(10000+i)))
	}
	span := time.Duration(pickFrom(t, 200, 1000, 3000, 8000)) * time.Millisecond
	sources := []string{"trusted"}
	for k := 0; k < sc.untrusted; k++ {
		sources = append(sources, fmt.Sprintf("u%d", k))
	}
	used := map[wire.OutPoint]bool{}
	for i := 0; i < n; i++ {
		ts := &txSpec{idx: i, inBlock: -1, holders: map[string]bool{}}
		// inputs
		nin := 1 + int(t.Choose(2))
		outage := o.outage && sc.untrusted > 0 && o.mkTx == nil && t.Bool(1, 5)
		for j := 0; j < nin; j++ {
			var op wire.OutPoint
			if outage {
				// outpoints of its own: the outage concerns this transaction only
				ts.spends = append(ts.spends, w.Fund(uint64(40000+i*10+j)))
				continue
			}
			wantConflict := o.conflicts > 0 && len(used) > 0 && t.Bool(uint32(o.conflicts), 4)
			if o.chains && i > 0 && t.Bool(1, 4) && !wantConflict {
				parent := sc.txs[t.Choose(uint32(i))]
				op = wire.OutPoint{Hash: parent.id, Index: uint32(t.Choose(uint32(len(parent.tx.TxOut))))}
			} else if wantConflict {
				// reuse an outpoint some earlier transaction spends
				keys := make([]wire.OutPoint, 0, len(used))
				for _, e := range sc.txs {
					keys = append(keys, e.spends...)
				}
				if len(keys) == 0 {
					keys = append(keys, ops[0])
				}
				op = keys[t.Choose(uint32(len(keys)))]
			} else {
				op = ops[t.Choose(uint32(len(ops)))]
				if used[op] && o.conflicts == 0 {
					op = w.Fund(uint64(20000 + i*10 + j))
				}
			}
			dupIn := false
			for _, e := range ts.spends {
				if e == op {
					dupIn = true
				}
			}
			if dupIn {
				op = w.Fund(uint64(30000 + i*10 + j))
			}
			ts.spends = append(ts.spends, op)
			used[op] = true
		}
		if o.mkTx != nil {
			ts.tx, ts.relevant = o.mkTx(w, ts.spends, 1+int(t.Choose(3)))
		} else {
			ts.relevant = t.Bool(3, 4) || outage
			var rel []byte
			if ts.relevant {
				rel = subKey
			}
			ts.tx = w.NewTx(ts.spends, rel, 1+int(t.Choose(2)), i)
		}
		ts.id = *ts.tx.TxHash()
		// deliveries
		nd := 1 + int(t.Choose(3))
		base := time.Duration(t.Choose(uint32(span/time.Millisecond)+1)) * time.Millisecond
		for d := 0; d < nd; d++ {
			dl := txDelivery{at: base + time.Duration(t.Choose(400))*time.Millisecond}
			if t.Bool(1, 3) {
				dl.at = base + time.Duration(t.Choose(6000))*time.Millisecond
			}
			dl.src = sources[t.Choose(uint32(len(sources)))]
			if o.local && t.Bool(1, 8) {
				dl.src = pickStr(t, "send", "handle")
			}
			dl.kind = pickStr(t, "inv", "inv", "tx")
			if dl.src == "send" || dl.src == "handle" {
				dl.kind = "tx"
			}
			ts.deliveries = append(ts.deliveries, dl)
			if !(o.silentPeers && dl.kind == "inv" && t.Bool(1, 5)) {
				ts.holders[dl.src] = true
			}
		}
		if outage {
			c.FaultConfigured("F-fetch-outage")
			ts.outageUntil = base + 3*time.Second
			for d := range ts.deliveries {
				ts.deliveries[d].at += 4 * time.Second
			}
			push := txDelivery{at: base, src: fmt.Sprintf("u%d", t.Choose(uint32(sc.untrusted))), kind: "tx"}
			ts.deliveries = append([]txDelivery{push}, ts.deliveries...)
		}
		sc.txs = append(sc.txs, ts)
	}
	if o.blocks {
		nb := int(t.Choose(4))
		for b := 0; b < nb; b++ {
			bs := blockSpec{at: time.Duration(t.Choose(uint32((span+6*time.Second)/time.Millisecond))) * time.Millisecond}
			sc.blocks = append(sc.blocks, bs)
		}
		sort.Slice(sc.blocks, func(i, j int) bool { return sc.blocks[i].at < sc.blocks[j].at })
		// assign transactions to blocks: never two conflicting transactions on the chain, parents
		// before children
		spent := map[wire.OutPoint]bool{}
		confirmed := map[bitcoin.Hash32]int{}
		for b := range sc.blocks {
			for _, ts := range sc.txs {
				if ts.inBlock >= 0 || !t.Bool(1, 3) {
					continue
				}
				ok := true
				if ts.outageUntil > 0 && sc.blocks[b].at < ts.outageUntil+time.Second {
					ok = false // the block processor needs the outputs too
				}
				for _, op := range ts.spends {
					if spent[op] {
						ok = false
					}
					if _, isTx := w.Txs[op.Hash]; isTx {
						if _, conf := confirmed[op.Hash]; !conf {
							ok = false // parent not confirmed yet
						}
					}
				}
				if !ok {
					continue
				}
				for _, op := range ts.spends {
					spent[op] = true
				}
				ts.inBlock = b
				confirmed[ts.id] = b
				sc.blocks[b].txs = append(sc.blocks[b].txs, ts.idx)
			}
		}
	}
	if o.restart && t.Bool(1, 2) {
		sc.restartAt = time.Duration(500+t.Choose(uint32(span/time.Millisecond)+4000)) * time.Millisecond
	}
	if o.dropConn && t.Bool(1, 3) {
		c.FaultConfigured("F-close")
		sc.dropAt = time.Duration(200+t.Choose(uint32(span/time.Millisecond)+3000)) * time.Millisecond
		if len(sc.blocks) > 0 && t.Bool(2, 3) {
			// shortly before a block, so that the block is fetched during the catch-up after the reconnect
			b := sc.blocks[t.Choose(uint32(len(sc.blocks)))]
			if d := b.at - time.Duration(t.Choose(2500))*time.Millisecond; d > 0 {
				sc.dropAt = d
			}
		}
	}
	sc.horizon = span + 8*time.Second
	for _, ts := range sc.txs {
		if ts.outageUntil > 0 && ts.outageUntil+8*time.Second > sc.horizon {
			sc.horizon = ts.outageUntil + 8*time.Second
		}
	}
	return sc
}

func pickStr(t *simrt.Tape, xs ...string) string { return xs[t.Choose(uint32(len(xs)))] }

// ---- running a transaction scenario --------------------------------------------------------------

type readySample struct {
	at    time.Duration
	ready bool
	gen   int
}

type txRun struct {
	drops []time.Duration // instants at which the trusted connection was closed by the peer
	c       *Ctx
	ns      *NodeSim
	sc      *txScenario
	origin  time.Duration
	samples []readySample
	// sendTimes: when each delivery was actually issued (absolute sim time) and on which conn
	issued  []issuedDelivery
	minedAt map[int]time.Duration
	mined   map[int]*WBlock
	restarts []time.Duration
	done    bool
	onMine  func(b int, blk *WBlock) // called after the block is created, before it is announced
}

type issuedDelivery struct {
	tx    *txSpec
	d     txDelivery
	at    time.Duration
	conn  *PeerConn
	endOff uint64
	ok    bool
	err   error
}

func untrustedAddr(k int) string { return fmt.Sprintf("[::ffff:10.1.0.%d]:8333", k+1) }

// newTxRun builds the node simulation for a transaction scenario: a short chain, the node synced.
func newTxRun(c *Ctx, sc *txScenario, ns *NodeSim) *txRun {
	tr := &txRun{c: c, ns: ns, sc: sc, minedAt: map[int]time.Duration{}, mined: map[int]*WBlock{}}
	ns.S.PreemptDen = sc.preemptDen
	maybeStalls(c, ns.S, 2, 10, 50)
	ns.Cfg.SafeTxDelay = sc.safeDelay
	ns.Cfg.UntrustedCount = sc.untrusted
	ns.Cfg.RequestMempool = sc.reqMempool
	ns.SubData = [][]byte{subKey}
	if sc.subSetup != nil {
		ns.SubData = nil
		ns.SubSetup = sc.subSetup
	}
	pre := 8 + int(c.Scen.Choose(4))
	tip := ns.BuildChain(ns.Tree.Genesis, pre, nil)
	ns.Start = ns.BuildChain(tip, 1, nil)
	tip = ns.BuildChain(ns.Start, 1+int(c.Scen.Choose(3)), nil)
	ns.Trusted.Best = tip
	ns.Trusted.AnnounceChunk = 8
	ns.Trusted.ServeTx = func(id bitcoin.Hash32) *wire.MsgTx { return tr.serve("trusted", id) }
	ns.LinkFor = func(addr string) *Link {
		return &Link{BaseLatency: sc.latBase, Jitter: sc.latJitter, Tape: c.Scen, Coalesce: c.Scen.Bool(1, 2)}
	}
	if sc.untrusted > 0 {
		repo := storage.NewPeerRepository(ns.Disk)
		ctx := quietCtx()
		repo.Load(ctx)
		for k := 0; k < sc.untrusted; k++ {
			addr := untrustedAddr(k)
			repo.Add(ctx, addr)
			repo.UpdateScore(ctx, addr, 5)
			name := fmt.Sprintf("u%d", k)
			p := ns.AddUntrusted(addr)
			p.Name = name
			p.Best = tip
			p.ServeTx = func(id bitcoin.Hash32) *wire.MsgTx { return tr.serve(name, id) }
		}
		repo.Save(ctx)
	}
	ns.TxW.FetchFailOps = func(ops []wire.OutPoint) bool {
		now := ns.S.Now()
		for _, ts := range sc.txs {
			if ts.outageUntil == 0 || tr.origin == 0 || now >= tr.origin+ts.outageUntil {
				continue
			}
			for _, op := range ops {
				for _, sp := range ts.spends {
					if op == sp {
						c.FaultFired("F-fetch-outage")
						simrt.Eventf("fault", "output service cannot answer for T%d's inputs", ts.idx)
						return true
					}
				}
			}
		}
		return false
	}
	if sc.slowHandler {
		c.FaultConfigured("F-slow")
		slow := func(kind string) time.Duration {
			if (kind == "tx" || kind == "update") && c.Scen.Bool(1, 4) {
				return time.Duration(1+c.Scen.Choose(300)) * time.Millisecond
			}
			return 0
		}
		ns.Rec = NewRecorder(ns, "h1")
		ns.Rec2 = NewRecorder(ns, "h2")
		ns.Rec.Slow = slow
	}
	return tr
}

func (tr *txRun) serve(peer string, id bitcoin.Hash32) *wire.MsgTx {
	for _, ts := range tr.sc.txs {
		if ts.id == id && ts.holders[peer] {
			return ts.tx
		}
	}
	return nil
}

func (tr *txRun) peerFor(src string) *PeerModel {
	if src == "trusted" {
		return tr.ns.Trusted
	}
	for _, p := range tr.ns.Untrusted {
		if p.Name == src {
			return p
		}
	}
	return nil
}

// waitInSync waits until the node reports ready and has sent sendheaders on the live connection.
func (tr *txRun) waitInSync(bound time.Duration) bool {
	ns := tr.ns
	deadline := ns.S.Now() + bound
	for ns.S.Now() < deadline {
		if pc := ns.Trusted.Live(); pc != nil && pc.SendHeaders && ns.Node.VerifState().IsReady() {
			return true
		}
		simrt.Sleep(100 * time.Millisecond)
	}
	return false
}

// liveVerified reports whether an untrusted peer currently has a connection on which the node has
// asked for its mempool (which it does only after verifying the peer's headers).
func verifiedConn(p *PeerModel, ns *NodeSim) *PeerConn {
	pc := p.Live()
	if pc == nil {
		return nil
	}
	for i := len(ns.Received) - 1; i >= 0; i-- {
		ev := ns.Received[i]
		if ev.Conn == pc {
			if _, ok := ev.Msg.(*wire.MsgMemPool); ok {
				return pc
			}
		}
	}
	return nil
}

func (tr *txRun) monitor() {
	ns := tr.ns
	for !tr.done {
		r := false
		if ns.Node != nil && !ns.RunDone {
			r = ns.Node.VerifState().IsReady()
		}
		tr.samples = append(tr.samples, readySample{at: ns.S.Now(), ready: r, gen: ns.NodeGen})
		simrt.Sleep(50 * time.Millisecond)
	}
}

// readyThroughout reports whether every monitor sample in [from,to] says ready, with at least one
// sample before and one after the interval.
func (tr *txRun) readyThroughout(from, to time.Duration) bool {
	seenBefore, seenAfter := false, false
	for _, s := range tr.samples {
		if s.at < from-60*time.Millisecond {
			continue
		}
		if s.at > to+60*time.Millisecond {
			seenAfter = true
			break
		}
		if s.at <= from {
			seenBefore = true
		}
		if !s.ready {
			return false
		}
	}
	return seenBefore && seenAfter
}

// drive executes the scenario from the driver task.
func (tr *txRun) drive() {
	ns, sc, c := tr.ns, tr.sc, tr.c
	ns.StartNode()
	if !tr.waitInSync(10 * time.Minute) {
		c.Res.Inconclusive = "no-sync"
		return
	}
	c.Probe("in_sync_reached")
	if sc.untrusted > 0 {
		// give the node a chance to connect to and verify untrusted peers
		deadline := ns.S.Now() + 20*time.Second
		for ns.S.Now() < deadline {
			n := 0
			for _, p := range ns.Untrusted {
				if verifiedConn(p, ns) != nil {
					n++
				}
			}
			if n >= sc.untrusted {
				break
			}
			simrt.Sleep(200 * time.Millisecond)
		}
	}
	simrt.GoDaemon("ready-monitor", tr.monitor)
	simrt.Sleep(300 * time.Millisecond)
	tr.origin = ns.S.Now()
	type ev struct {
		at   time.Duration
		kind int // 0 delivery, 1 block, 2 restart
		ts   *txSpec
		d    txDelivery
		b    int
	}
	var evs []ev
	for _, ts := range sc.txs {
		for _, d := range ts.deliveries {
			evs = append(evs, ev{at: d.at, ts: ts, d: d})
		}
	}
	for i, b := range sc.blocks {
		evs = append(evs, ev{at: b.at, kind: 1, b: i})
	}
	if sc.restartAt > 0 {
		evs = append(evs, ev{at: sc.restartAt, kind: 2})
	}
	if sc.dropAt > 0 {
		evs = append(evs, ev{at: sc.dropAt, kind: 3})
	}
	sort.SliceStable(evs, func(i, j int) bool { return evs[i].at < evs[j].at })
	for _, e := range evs {
		if wait := tr.origin + e.at - ns.S.Now(); wait > 0 {
			simrt.Sleep(wait)
		}
		switch e.kind {
		case 0:
			tr.deliver(e.ts, e.d)
		case 1:
			if _, done := tr.mined[e.b]; !done {
				tr.mine(e.b)
			}
		case 2:
			tr.restart()
		case 3:
			if pc := ns.Trusted.Live(); pc != nil {
				c.FaultFired("F-close")
				simrt.Eventf("fault", "trusted peer closes %s", pc)
				tr.drops = append(tr.drops, ns.S.Now())
				pc.C.Close()
				ns.Touch()
			}
		}
	}
	// quiescence: safe delay + settle
	simrt.Sleep(time.Duration(sc.safeDelay)*time.Millisecond + 40*time.Second)
	if len(tr.drops) > 0 {
		// after a lost connection the node may need its own header time-out (about a minute) and
		// another reconnect before it has caught up; how fast it does is C01's business, not this
		// scenario's: wait (bounded) until it holds the peer's tip
		deadline := ns.S.Now() + 10*time.Minute
		for ns.S.Now() < deadline && !ns.RunDone {
			caught := false
			simrt.NoPreempt(func() { caught = ns.Node.VerifBlocks().LastHeight() >= ns.Trusted.Best.Height })
			if caught {
				break
			}
			simrt.Sleep(time.Second)
		}
		simrt.Sleep(5 * time.Second)
	}
}

func (tr *txRun) deliver(ts *txSpec, d txDelivery) {
	ns := tr.ns
	is := issuedDelivery{tx: ts, d: d, at: ns.S.Now()}
	simrt.Eventf("scenario", "deliver T%d %s via %s:%s", ts.idx, shortHash(ts.id), d.src, d.kind)
	switch d.src {
	case "send":
		is.err = ns.Node.SendTx(ns.ctx(), ts.tx)
		is.ok = is.err == nil
	case "handle":
		is.err = ns.Node.HandleTx(ns.ctx(), ts.tx)
		is.ok = is.err == nil
	default:
		p := tr.peerFor(d.src)
		if p == nil {
			break
		}
		var pc *PeerConn
		if p.Trusted {
			pc = p.Live()
			if pc != nil && !pc.VerackSeen {
				pc = nil
			}
		} else {
			pc = verifiedConn(p, ns)
		}
		if pc == nil {
			break
		}
		if d.kind == "inv" {
			inv := wire.NewMsgInv()
			inv.AddInvVect(wire.NewInvVect(wire.InvTypeTx, &ts.id))
			is.ok = pc.Send(inv)
		} else {
			is.ok = pc.Send(ts.tx)
		}
		is.conn = pc
		is.endOff = pc.sentOff
	}
	tr.issued = append(tr.issued, is)
}

func (tr *txRun) mine(b int) {
	ns := tr.ns
	var txs []*wire.MsgTx
	for _, i := range tr.sc.blocks[b].txs {
		txs = append(txs, tr.sc.txs[i].tx)
	}
	blk := ns.Tree.AddBlock(ns.Trusted.Best, txs, true)
	tr.mined[b] = blk
	tr.minedAt[b] = ns.S.Now()
	for _, p := range ns.Untrusted {
		p.Best = blk
	}
	simrt.Eventf("scenario", "mine B%d %s with %d txs", b, blk, len(txs))
	if tr.onMine != nil {
		tr.onMine(b, blk)
	}
	ns.Trusted.SetBest(blk)
	ns.Touch()
}

func (tr *txRun) restart() {
	ns := tr.ns
	simrt.Sleep(1500 * time.Millisecond) // let in-flight requests settle: a clean stop at a quiescent point
	tr.c.FaultFired("F-restart")
	simrt.Eventf("scenario", "clean restart")
	tr.restarts = append(tr.restarts, ns.S.Now())
	if !ns.StopNode(10 * time.Minute) {
		tr.c.Violate("stop-hang", "restart", "Stop did not complete within 10 simulated minutes")
		return
	}
	if tr.c.Scen.Bool(1, 2) {
		// a block found while the node is down: it is fetched during the catch-up after the
		// restart, before the node is in sync again
		for b := range tr.sc.blocks {
			if _, done := tr.mined[b]; !done {
				tr.c.Probe("block_mined_while_down")
				tr.mine(b)
				break
			}
		}
	}
	ns.StartNode()
	tr.restarts = append(tr.restarts, ns.S.Now())
	tr.waitInSync(10 * time.Minute)
}

// ---- derived history --------------------------------------------------------------------------

// consumedAt returns the simulated time at which the node finished reading stream offset off of
// the connection (or -1 if it never did).
func consumedAt(pc *PeerConn, off uint64) time.Duration {
	for _, r := range pc.NodeSide.ReadLog {
		if r.Off >= off {
			return r.At
		}
	}
	return -1
}

type txHistory struct {
	spec        *txSpec
	newCalls    []Callback // HandleTx on h1
	updates     []Callback // HandleTxUpdate on h1
	firstBodyAt time.Duration // node consumed first body (or local submission); -1 never
	firstBodyConn *PeerConn   // the connection that body came in on (nil: local submission)
	trustedAt   time.Duration // node consumed trusted inv or body; -1 never
	localAt     time.Duration
	bodySources []string
}

func (tr *txRun) histories() map[bitcoin.Hash32]*txHistory {
	hs := map[bitcoin.Hash32]*txHistory{}
	for _, ts := range tr.sc.txs {
		hs[ts.id] = &txHistory{spec: ts, firstBodyAt: -1, trustedAt: -1, localAt: -1}
	}
	minT := func(a, b time.Duration) time.Duration {
		if a < 0 || (b >= 0 && b < a) {
			return b
		}
		return a
	}
	// bodies and invs consumed by the node: every peer->SUT message
	for _, ev := range tr.ns.SentLog {
		at := consumedAt(ev.Conn, ev.EndOff)
		if at < 0 {
			continue
		}
		switch m := ev.Msg.(type) {
		case *wire.MsgTx:
			if h := hs[*m.TxHash()]; h != nil {
				if h.firstBodyAt < 0 || at < h.firstBodyAt {
					h.firstBodyConn = ev.Conn
				}
				h.firstBodyAt = minT(h.firstBodyAt, at)
				h.bodySources = append(h.bodySources, ev.Conn.P.Name)
				if ev.Conn.P.Trusted {
					h.trustedAt = minT(h.trustedAt, at)
				}
			}
		case *wire.MsgInv:
			if ev.Conn.P.Trusted {
				for _, iv := range m.InvList {
					if iv.Type == wire.InvTypeTx {
						if h := hs[iv.Hash]; h != nil {
							h.trustedAt = minT(h.trustedAt, at)
						}
					}
				}
			}
		}
	}
	for _, is := range tr.issued {
		if (is.d.src == "send" || is.d.src == "handle") && is.ok {
			h := hs[is.tx.id]
			h.localAt = minT(h.localAt, is.at)
			h.firstBodyAt = minT(h.firstBodyAt, is.at)
		}
	}
	for _, cb := range tr.ns.Rec.Log {
		switch cb.Kind {
		case "tx":
			if h := hs[*cb.Tx.Tx.TxHash()]; h != nil {
				h.newCalls = append(h.newCalls, cb)
			}
		case "update":
			if h := hs[cb.Update.TxID]; h != nil {
				h.updates = append(h.updates, cb)
			}
		}
	}
	return hs
}

// states returns the trajectory of states of a transaction in observation order.
func (h *txHistory) states() []struct {
	at    time.Duration
	seq   uint64
	st    client.TxState
	isNew bool
} {
	type e = struct {
		at    time.Duration
		seq   uint64
		st    client.TxState
		isNew bool
	}
	var out []e
	for _, cb := range h.newCalls {
		out = append(out, e{cb.At, cb.Seq, cb.Tx.State, true})
	}
	for _, cb := range h.updates {
		out = append(out, e{cb.At, cb.Seq, cb.Update.State, false})
	}
	sort.SliceStable(out, func(i, j int) bool { return out[i].seq < out[j].seq })
	return out
}
