//go:build go1.26

package verifsim

import (
	"bytes"
	"fmt"
	"io"
	"reflect"

	"github.com/tokenized/spynode/internal/storage"
	"github.com/tokenized/spynode/pkg/client"
	"verif.local/simrt"
)

// ---- C15: client wire messages round-trip exactly and preserve stream framing -------------------

// fragReader hands out the stream in tape-sized pieces and reports how much was consumed.
type fragReader struct {
	data []byte
	pos  int
	t    *simrt.Tape
	one  bool // single-byte reads
}

func (f *fragReader) Read(p []byte) (int, error) {
	if f.pos >= len(f.data) {
		return 0, io.EOF
	}
	n := len(p)
	if f.one {
		n = 1
	} else if n > 1 {
		n = 1 + int(f.t.Choose(uint32(n)))
	}
	if n > len(f.data)-f.pos {
		n = len(f.data) - f.pos
	}
	copy(p, f.data[f.pos:f.pos+n])
	f.pos += n
	return n, nil
}

func c15case(c *Ctx, g *msgGen) (string, string, string, string) {
	t := c.Scen
	n := 1 + int(t.Choose(6))
	var payloads []client.MessagePayload
	var encs [][]byte
	var stream []byte
	desc := ""
	for i := 0; i < n; i++ {
		typ := allMessageTypes[t.Choose(uint32(len(allMessageTypes)))]
		p := g.payload(typ)
		enc, err := encodeMessage(p)
		if err != nil {
			// a generated value the format cannot express is the generator's problem
			return "harness-panic", "generator", fmt.Sprintf("cannot serialize generated %s: %v", client.NameForMessageType(typ), err), desc
		}
		payloads = append(payloads, p)
		encs = append(encs, enc)
		stream = append(stream, enc...)
		desc += fmt.Sprintf("%s(%dB) ", client.NameForMessageType(typ), len(enc))
	}
	// decode the concatenation through a fragmenting reader
	fr := &fragReader{data: stream, t: t, one: t.Bool(1, 4)}
	off := 0
	for i, want := range payloads {
		name := client.NameForMessageType(want.Type())
		m := &client.Message{}
		var err error
		if p := guard(func() { err = m.Deserialize(fr) }); p != "" {
			return "panic", "decode/" + name, fmt.Sprintf("decoding %s panicked: %s", name, p), desc
		}
		if err != nil {
			return "roundtrip", "decode-error/" + name, fmt.Sprintf("message %d (%s) of a valid stream fails to decode: %v", i, name, err), desc
		}
		off += len(encs[i])
		if fr.pos != off {
			return "framing", name, fmt.Sprintf("after decoding message %d (%s) the reader is at byte %d, the encoding ends at %d", i, name, fr.pos, off), desc
		}
		if reflect.TypeOf(m.Payload) != reflect.TypeOf(want) {
			return "roundtrip", "type/" + name, fmt.Sprintf("message %d decoded as %T, sent %T", i, m.Payload, want), desc
		}
		if ok, why := semEqual(m.Payload, want); !ok {
			return "roundtrip", "value/" + name, fmt.Sprintf("message %d (%s) decoded to a different value: %s", i, name, why), desc
		}
		re, err := encodeMessage(m.Payload)
		if err != nil || !bytes.Equal(re, encs[i]) {
			return "roundtrip", "re-encode/" + name, fmt.Sprintf("re-encoding the decoded %s yields different bytes (err %v)", name, err), desc
		}
	}
	// every strict prefix of one encoding fails with an error
	k := int(t.Choose(uint32(n)))
	enc := encs[k]
	name := client.NameForMessageType(payloads[k].Type())
	step := 1
	if len(enc) > 700 {
		step = len(enc)/350 + 1
	}
	for cut := 0; cut < len(enc); cut += step {
		if step > 1 && cut+step >= len(enc)-48 {
			step = 1 // the tail byte by byte: a field that ends the message ends here
		}
		m := &client.Message{}
		var err error
		if p := guard(func() { err = m.Deserialize(bytes.NewReader(enc[:cut])) }); p != "" {
			return "panic", "prefix/" + name, fmt.Sprintf("decoding a %d-byte prefix of a %d-byte %s panicked: %s", cut, len(enc), name, p), desc
		}
		if err == nil {
			return "prefix-accepted", name, fmt.Sprintf("the %d-byte prefix of a %d-byte %s decodes without error (as %T)", cut, len(enc), name, m.Payload), desc
		}
	}
	return "", "", "", desc
}

func init() {
	real := []string{"pkg/client Message.Serialize / Deserialize and all 37 payload (de)serializers", "internal/storage.SaveTxState / FetchTxState (stored client.Tx record)"}
	stub := []string{"reader (fragmenting / truncating sim stream)", "disk (simdisk)"}
	Register(&Check{Prop: "C15", Sub: "roundtrip-stream", Weight: 6, Real: real, Stub: stub,
		Rule: "sequences of 1-6 messages over all 37 types with generated field values (empty and long lists, nil vs present optional hash / merkle proof, integers at every varint width, scripts up to 70 kB) concatenated and decoded through a reader that returns tape-sized fragments (a quarter of the cases byte by byte); one message per case is also decoded from every strict prefix (about 350 evenly spaced cuts plus the last 48 bytes one by one for encodings over 700 bytes); non-trivial = every case.",
		Run: func(c *Ctx) {
			g := newMsgGen(c.Scen)
			cases := 120
			if c.Tier == "thorough" {
				cases = 400
			}
			for k := 0; k < cases; k++ {
				cl, key, msg, desc := c15case(c, g)
				c.NoteCase(true, desc+fmt.Sprint(c.Scen.Pos()))
				if k == 0 {
					c.Res.Summary = desc
				}
				if cl != "" {
					c.Violate(cl, key, "%s [%s]", msg, desc)
					c.Res.Summary = desc
					return
				}
			}
			c.Res.Nontrivial = true
		}})
	Register(&Check{Prop: "C15", Sub: "stream-through-client", Weight: 2, Real: clientReal, Stub: clientStub,
		Req:  []string{"handshake_completed", "notification_delivered", "completeness_judged"},
		Rule: "the C17 stream scenario (3-27 numbered Tx/TxUpdate messages with unnumbered InSync/Headers in between, streamed by the scripted service over links that fragment writes and coalesce reads like a TCP socket, with slow handlers and connection drops) through the real RemoteClient: every message the service wrote reaches the handlers once, intact and in order, however the bytes were cut up or joined on the way.",
		Run: func(c *Ctx) {
			c.OnlyClauses = []string{"missed", "wrong-content", "out-of-order", "foreign-id", "repeat"}
			runC17(c)
		}})
	Register(&Check{Prop: "C15", Sub: "client-writes-framed", Weight: 2, Real: clientReal, Stub: clientStub,
		Req:  []string{"connection", "valid_accept", "call_succeeded"},
		Rule: "the C18 scenario (concurrent application calls, subscriptions and Ready around handshakes, reconnects, slow writes, thread stalls) judged for one thing: the bytes the client wrote on every connection parse as a sequence of whole messages.",
		Run: func(c *Ctx) {
			c.OnlyClauses = []string{"stream-corrupt"}
			c18ForceBurst = true
			defer func() { c18ForceBurst = false }()
			runC18(c)
		}})
	Register(&Check{Prop: "C15", Sub: "type-bijection", Once: true, Real: real,
		Run: func(c *Ctx) {
			names := map[string]uint64{}
			for _, typ := range allMessageTypes {
				c.NoteCase(true, fmt.Sprint("type", typ))
				p := client.PayloadForType(typ)
				if p == nil {
					c.Violate("bijection", "payload-for-type", "PayloadForType(%d) is nil", typ)
					continue
				}
				if p.Type() != typ {
					c.Violate("bijection", "type-code", "PayloadForType(%d) returns %T whose Type() is %d", typ, p, p.Type())
				}
				name, ok := client.MessageTypeNames[typ]
				if !ok || name == "" {
					c.Violate("bijection", "name-missing", "message type %d (%T) has no name", typ, p)
					continue
				}
				if other, dup := names[name]; dup {
					c.Violate("bijection", "name-duplicate", "message types %d and %d share the name %q", other, typ, name)
				}
				names[name] = typ
				if client.NameForMessageType(typ) != name {
					c.Violate("bijection", "name-lookup", "NameForMessageType(%d) = %q, table says %q", typ, client.NameForMessageType(typ), name)
				}
			}
			if len(client.MessageTypeNames) != len(allMessageTypes) {
				c.Violate("bijection", "count", "%d named message types, %d payload types", len(client.MessageTypeNames), len(allMessageTypes))
			}
			// no two type codes map to the same payload type
			seen := map[reflect.Type]uint64{}
			for _, typ := range allMessageTypes {
				rt := reflect.TypeOf(client.PayloadForType(typ))
				if o, dup := seen[rt]; dup {
					c.Violate("bijection", "payload-duplicate", "type codes %d and %d both map to %s", o, typ, rt)
				}
				seen[rt] = typ
			}
			c.Res.Exhaustive = true
			c.Res.Nontrivial = true
			c.Res.Summary = fmt.Sprintf("%d message types: code <-> payload type <-> name", len(allMessageTypes))
		}})
	Register(&Check{Prop: "C15", Sub: "stored-tx-record", Weight: 1, Real: real, Stub: stub,
		Rule: "generated client.Tx records (transaction, spent outputs, state with optional merkle proof) saved through SaveTxState and fetched back through FetchTxState on the simulated disk, and decoded from every strict prefix.",
		Run: func(c *Ctx) {
			g := newMsgGen(c.Scen)
			ctx := quietCtx()
			for k := 0; k < 60; k++ {
				tx := g.payload(client.MessageTypeTx).(*client.Tx)
				tx.ID = 0 // the record does not carry the message id
				disk := NewSimDisk()
				desc := fmt.Sprintf("tx in=%d out=%d proof=%v", len(tx.Tx.TxIn), len(tx.Tx.TxOut), tx.State.MerkleProof != nil)
				c.NoteCase(true, desc+fmt.Sprint(c.Scen.Pos()))
				if err := storage.SaveTxState(ctx, disk, tx); err != nil {
					c.Violate("roundtrip", "stored-tx/save", "SaveTxState failed: %v", err)
					return
				}
				got, err := storage.FetchTxState(ctx, disk, *tx.Tx.TxHash())
				if err != nil {
					c.Violate("roundtrip", "stored-tx/fetch", "FetchTxState after SaveTxState failed: %v (%s)", err, desc)
					return
				}
				if ok, why := semEqual(got, tx); !ok {
					c.Violate("roundtrip", "stored-tx/value", "stored transaction record differs after save/fetch: %s (%s)", why, desc)
					return
				}
				var buf bytes.Buffer
				tx.Serialize(&buf)
				enc := buf.Bytes()
				step := len(enc)/300 + 1
				for cut := 0; cut < len(enc); cut += step {
					var x client.Tx
					var err error
					if p := guard(func() { err = x.Deserialize(bytes.NewReader(enc[:cut])) }); p != "" {
						c.Violate("panic", "stored-tx/prefix", "decoding a %d-byte prefix of a stored record panicked: %s", cut, p)
						return
					}
					if err == nil {
						c.Violate("prefix-accepted", "stored-tx", "the %d-byte prefix of a %d-byte stored record decodes without error", cut, len(enc))
						return
					}
				}
			}
			c.Res.Nontrivial = true
			c.Res.Summary = "stored client.Tx records"
		}})
}
