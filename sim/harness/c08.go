//go:build go1.26

package verifsim

import (
	"bytes"
	"fmt"
	"strings"
	"time"

	"github.com/anishathalye/porcupine"
	"github.com/golang/protobuf/proto"
	envelopeV0 "github.com/tokenized/envelope/pkg/golang/envelope/v0"
	"github.com/tokenized/pkg/bitcoin"
	"github.com/tokenized/pkg/wire"
	"github.com/tokenized/specification/dist/golang/actions"
	"github.com/tokenized/specification/dist/golang/protocol"
	"github.com/tokenized/spynode/internal/spynode"
	"github.com/tokenized/spynode/internal/platform/config"
	"verif.local/simrt"
)

// ---- C08: subscription filter -------------------------------------------------------------------
//
// Reference: scriptPushes/refRelevant (txsim.go) - an independent byte-level walker - over a
// multiset of 20-byte values, plus a by-construction flag "this output was produced as a Tokenized
// action of type T for protocol id P".
//
// Not judged (the statement does not settle it): whether OP_0, OP_1..OP_16, OP_1NEGATE and
// zero-length pushes count as data pushes. The subscription universe never contains hash160 of
// the empty string, of a single byte 1..16 or of 0xff, so both readings give the same answer.

const c08Universe = 6

// c08gen draws subscription universes, scripts and transactions.
type c08gen struct {
	t        *simrt.Tape
	raw      [c08Universe][]byte   // the data a wallet would push
	hash     [c08Universe][20]byte // its 20-byte filter value
	isTest   bool
	salt     int
	contract map[bitcoin.Hash32]bool // txid -> carries a contract-wide action for the node's protocol id
	kinds    map[string]int
}

func newC08gen(t *simrt.Tape, isTest bool) *c08gen {
	g := &c08gen{t: t, isTest: isTest, contract: map[bitcoin.Hash32]bool{}, kinds: map[string]int{}}
	lens := []int{5, 19, 20, 21, 33, 80, 300, 65}
	for i := 0; i < c08Universe; i++ {
		n := lens[(i+int(t.Choose(3)))%len(lens)]
		d := make([]byte, 0, n)
		for len(d) < n {
			h := dsha([]byte(fmt.Sprintf("c08-universe-%d-%d-%d", i, n, len(d))))
			d = append(d, h[:]...)
		}
		g.raw[i] = d[:n]
		if n == 20 {
			copy(g.hash[i][:], g.raw[i])
		} else {
			g.hash[i] = hash160(g.raw[i])
		}
	}
	return g
}

func (g *c08gen) note(k string) { g.kinds[k]++ }

func (g *c08gen) rnd(n int) []byte {
	g.salt++
	var d []byte
	for len(d) < n {
		h := dsha([]byte(fmt.Sprintf("c08-rnd-%d-%d", g.salt, len(d))))
		d = append(d, h[:]...)
	}
	return d[:n]
}

// encodePush encodes data with the chosen push form: 0 minimal, 1 PUSHDATA1, 2 PUSHDATA2, 4 PUSHDATA4.
func encodePush(form int, d []byte) []byte {
	n := len(d)
	switch {
	case form == 0 && n >= 1 && n <= 75:
		return append([]byte{byte(n)}, d...)
	case (form == 0 || form == 1) && n <= 255:
		return append([]byte{0x4c, byte(n)}, d...)
	case form != 4 && n <= 65535:
		return append([]byte{0x4d, byte(n), byte(n >> 8)}, d...)
	default:
		return append([]byte{0x4e, byte(n), byte(n >> 8), byte(n >> 16), byte(n >> 24)}, d...)
	}
}

// payload picks what a push carries.
func (g *c08gen) payload() ([]byte, string) {
	t := g.t
	u := int(t.Choose(c08Universe))
	switch t.Choose(10) {
	case 0, 1: // the raw data
		return g.raw[u], "raw"
	case 2, 3: // the 20-byte value itself
		return g.hash[u][:], "hash"
	case 4: // near miss: one byte flipped
		d := append([]byte{}, g.hash[u][:]...)
		d[t.Choose(20)] ^= 1 << t.Choose(8)
		return d, "near-flip"
	case 5: // near miss: 19- or 21-byte relatives of the value
		if t.Bool(1, 2) {
			return g.hash[u][:19], "near-19"
		}
		return append(append([]byte{}, g.hash[u][:]...), 0), "near-21"
	case 6: // raw data with a changed tail
		d := append([]byte{}, g.raw[u]...)
		d[len(d)-1] ^= 0x80
		return d, "near-raw"
	case 7:
		return g.rnd(20), "random-20"
	case 8:
		return g.rnd(1 + int(t.Choose(75))), "random-short"
	default:
		return g.rnd(76 + int(t.Choose(500))), "random-long"
	}
}

// script draws a script from the grammar: direct pushes, PUSHDATA1/2/4 pushes (any length, also
// non-minimal), non-push opcodes, malformed pushes whose bytes contain a subscribed value, and an
// optional truncation at an arbitrary byte.
func (g *c08gen) script() []byte {
	t := g.t
	var s []byte
	n := int(t.Choose(6))
	for i := 0; i < n; i++ {
		switch t.Choose(12) {
		case 0, 1, 2, 3:
			d, k := g.payload()
			g.note("push-" + k)
			s = append(s, encodePush(0, d)...)
		case 4:
			d, k := g.payload()
			form := pickFrom(t, 1, 2, 4)
			g.note(fmt.Sprintf("pushdata%d-%s", form, k))
			s = append(s, encodePush(form, d)...)
		case 5: // opcodes that push no subscribed data
			g.note("small-int-op")
			s = append(s, byte(pickFrom(t, 0x00, 0x4f, 0x51, 0x52, 0x60)))
		case 6, 7: // every other opcode
			g.note("non-push-op")
			s = append(s, byte(pickFrom(t, 0x50, 0x61, 0x6a, 0x76, 0x87, 0x88, 0xa9, 0xac, 0xae, 0xba, 0xfe, 0xff, 0x63, 0x68, 0x75)))
		case 8: // empty pushes
			g.note("empty-push")
			s = append(s, [][]byte{{0x4c, 0}, {0x4d, 0, 0}, {0x4e, 0, 0, 0, 0}}[t.Choose(3)]...)
		case 9: // a push whose declared length runs past the end; the bytes that follow contain a
			// subscribed value, which must not count. Ends the script.
			g.note("overlong-push")
			d, _ := g.payload()
			over := 1 + int(t.Choose(40))
			switch t.Choose(4) {
			case 0:
				if len(d)+over <= 75 {
					s = append(s, byte(len(d)+over))
				} else {
					s = append(s, 0x4c, 0xff)
					if len(d) >= 255 {
						d = d[:200]
					}
				}
			case 1:
				if len(d) >= 255 {
					d = d[:200]
				}
				s = append(s, 0x4c, byte(minInt(255, len(d)+over)))
				if len(d)+over > 255 {
					d = d[:200]
				}
			case 2:
				s = append(s, 0x4d, byte(len(d)+over), byte((len(d)+over)>>8))
			default:
				big := pickFrom(t, len(d)+over, 0x7fffffff, 0x80000000, 0xffffffff, 0x01000000)
				s = append(s, 0x4e, byte(big), byte(big>>8), byte(big>>16), byte(big>>24))
			}
			s = append(s, d...)
			return s
		case 10: // truncated length field. Ends the script.
			g.note("truncated-length")
			switch t.Choose(3) {
			case 0:
				s = append(s, 0x4c)
			case 1:
				s = append(s, 0x4d)
				if t.Bool(1, 2) {
					s = append(s, 20)
				}
			default:
				s = append(s, 0x4e)
				s = append(s, make([]byte, t.Choose(4))...)
			}
			return s
		default: // standard shapes
			g.note("p2pkh-shape")
			d, _ := g.payload()
			s = append(s, 0x76, 0xa9)
			s = append(s, encodePush(0, d)...)
			s = append(s, 0x88, 0xac)
		}
	}
	if len(s) > 0 && t.Bool(1, 5) {
		g.note("truncated-tail")
		s = s[:t.Choose(uint32(len(s)))]
	}
	return s
}

var c08Actions = []func() actions.Action{
	func() actions.Action { return &actions.ContractFormation{ContractName: "c08 contract", ContractFee: 7} },
	func() actions.Action { return &actions.ContractFormation{} },
	func() actions.Action {
		return &actions.InstrumentCreation{InstrumentCode: bytes.Repeat([]byte{7}, 20), InstrumentIndex: 3}
	},
	func() actions.Action { return &actions.InstrumentCreation{} },
	func() actions.Action { return &actions.ContractOffer{ContractName: "c08 offer"} },
	func() actions.Action { return &actions.ContractAmendment{ChangeOperatorAddress: true} },
	func() actions.Action { return &actions.InstrumentDefinition{VotingRights: true} },
	func() actions.Action { return &actions.InstrumentModification{InstrumentRevision: 2} },
	func() actions.Action { return &actions.Transfer{OfferExpiry: 9} },
	func() actions.Action { return &actions.Settlement{Timestamp: 11} },
	func() actions.Action { return &actions.Message{MessageCode: 1002} },
	func() actions.Action { return &actions.Rejection{RejectionCode: 3} },
	func() actions.Action { return &actions.StaticContractFormation{ContractName: "static"} },
	func() actions.Action { return &actions.BodyOfAgreementFormation{Revision: 1} },
}

// actionScript returns an OP_RETURN script carrying a Tokenized action and whether a node
// configured with g.isTest must treat it as contract-wide.
func (g *c08gen) actionScript() ([]byte, bool) {
	t := g.t
	a := c08Actions[t.Choose(uint32(len(c08Actions)))]()
	forTest := g.isTest
	if t.Bool(1, 4) {
		forTest = !forTest // the other network's protocol id
	}
	var script []byte
	env := "v1"
	if t.Bool(1, 3) {
		env = "v0"
		payload, err := proto.Marshal(a)
		if err != nil {
			panic(err)
		}
		m := envelopeV0.NewMessage(protocol.GetProtocolID(forTest), 0, payload)
		m.SetPayloadIdentifier([]byte(a.Code()))
		var buf bytes.Buffer
		if err := m.Serialize(&buf); err != nil {
			panic(err)
		}
		script = buf.Bytes()
	} else {
		s, err := protocol.Serialize(a, forTest)
		if err != nil {
			panic(err)
		}
		script = s
	}
	wide := false
	switch a.(type) {
	case *actions.ContractFormation, *actions.InstrumentCreation:
		wide = true
	}
	g.note(fmt.Sprintf("action-%s-%s-match=%v", a.Code(), env, forTest == g.isTest))
	return script, wide && forTest == g.isTest
}

// tx builds a transaction over the given outpoints with grammar scripts. Returns whether it
// carries a contract-wide action (by construction; nil = not decidable by construction).
func (g *c08gen) fill(tx *wire.MsgTx, spends []wire.OutPoint, nOut int) {
	t := g.t
	for _, op := range spends {
		o := op
		tx.AddTxIn(wire.NewTxIn(&o, g.script()))
	}
	wide := false
	for i := 0; i < nOut; i++ {
		g.salt++
		if t.Bool(1, 4) {
			s, w := g.actionScript()
			wide = wide || w
			tx.AddTxOut(wire.NewTxOut(0, s))
			continue
		}
		tx.AddTxOut(wire.NewTxOut(uint64(1000+g.salt), g.script()))
	}
	g.contract[*tx.TxHash()] = wide
}

func (g *c08gen) newTx() *wire.MsgTx {
	t := g.t
	tx := wire.NewMsgTx(1)
	var spends []wire.OutPoint
	for j := int(t.Choose(3)); j > 0; j-- {
		g.salt++
		spends = append(spends, wire.OutPoint{Hash: dsha([]byte(fmt.Sprint("c08-in-", g.salt))), Index: uint32(j)})
	}
	g.fill(tx, spends, int(t.Choose(4)))
	return tx
}

// ---- subscription operations and the reference model --------------------------------------------

type c08op struct {
	kind  string // sub | unsub | subC | unsubC | query
	items []int  // universe indexes
	forms []bool // true = given as the 20-byte value, false = as raw data
	tx    *wire.MsgTx
}

func (o c08op) String() string {
	switch o.kind {
	case "sub", "unsub":
		var p []string
		for i, u := range o.items {
			f := "raw"
			if o.forms[i] {
				f = "hash"
			}
			p = append(p, fmt.Sprintf("U%d/%s", u, f))
		}
		return o.kind + "(" + strings.Join(p, ",") + ")"
	case "query":
		return "IsRelevant(" + shortHash(*o.tx.TxHash()) + ")"
	}
	return o.kind
}

type c08model struct {
	counts   [c08Universe]int
	contract bool
}

func (g *c08gen) genSubOp(allowContracts bool) c08op {
	t := g.t
	k := t.Choose(10)
	switch {
	case k < 4, k < 7:
		o := c08op{kind: "sub"}
		if k >= 4 {
			o.kind = "unsub"
		}
		n := 1 + int(t.Choose(3))
		if t.Bool(1, 12) {
			n = 0
		}
		for i := 0; i < n; i++ {
			o.items = append(o.items, int(t.Choose(c08Universe)))
			o.forms = append(o.forms, t.Bool(1, 2))
		}
		return o
	case !allowContracts:
		return c08op{kind: "sub", items: []int{int(t.Choose(c08Universe))}, forms: []bool{t.Bool(1, 2)}}
	case k < 9:
		return c08op{kind: "subC"}
	default:
		return c08op{kind: "unsubC"}
	}
}

func (g *c08gen) datas(o c08op) [][]byte {
	var out [][]byte
	for i, u := range o.items {
		if o.forms[i] {
			out = append(out, append([]byte{}, g.hash[u][:]...))
		} else {
			out = append(out, append([]byte{}, g.raw[u]...))
		}
	}
	return out
}

func (m c08model) apply(o c08op) c08model {
	switch o.kind {
	case "sub":
		for _, u := range o.items {
			m.counts[u]++
		}
	case "unsub":
		for _, u := range o.items {
			if m.counts[u] > 0 {
				m.counts[u]--
			}
		}
	case "subC":
		m.contract = true
	case "unsubC":
		m.contract = false
	}
	return m
}

func (g *c08gen) subsOf(m c08model) map[[20]byte]int {
	subs := map[[20]byte]int{}
	for u, n := range m.counts {
		if n > 0 {
			subs[g.hash[u]] += n
		}
	}
	return subs
}

// relevant is the reference answer.
func (g *c08gen) relevant(m c08model, tx *wire.MsgTx) bool {
	if refRelevant(tx, g.subsOf(m)) {
		return true
	}
	return m.contract && g.contract[*tx.TxHash()]
}

func (g *c08gen) applyToNode(node *spynode.Node, o c08op) error {
	ctx := quietCtx()
	switch o.kind {
	case "sub":
		return node.SubscribePushDatas(ctx, g.datas(o))
	case "unsub":
		return node.UnsubscribePushDatas(ctx, g.datas(o))
	case "subC":
		return node.SubscribeContracts(ctx)
	case "unsubC":
		return node.UnsubscribeContracts(ctx)
	}
	return nil
}

func (g *c08gen) describeTx(tx *wire.MsgTx) string {
	var sb strings.Builder
	for i, in := range tx.TxIn {
		fmt.Fprintf(&sb, " in%d=%x", i, in.UnlockingScript)
	}
	for i, o := range tx.TxOut {
		fmt.Fprintf(&sb, " out%d=%x", i, o.LockingScript)
	}
	return sb.String()
}

// classify names the script feature that decides relevance, for the violation key.
func (g *c08gen) classify(m c08model, tx *wire.MsgTx, want bool) string {
	subs := g.subsOf(m)
	if want {
		one := func(s []byte) string {
			ps := scriptPushes(s)
			for i, p := range ps {
				var k [20]byte
				form := "hash-form"
				if len(p) == 20 {
					copy(k[:], p)
				} else {
					k = hash160(p)
					form = "raw-form"
				}
				if subs[k] > 0 {
					enc := "direct"
					if len(p) > 75 {
						enc = "pushdata"
					}
					pos := "first-push"
					if i > 0 {
						pos = "later-push"
					}
					return form + "/" + enc + "/" + pos
				}
			}
			return ""
		}
		for _, o := range tx.TxOut {
			if k := one(o.LockingScript); k != "" {
				return "missed/output/" + k
			}
		}
		for _, in := range tx.TxIn {
			if k := one(in.UnlockingScript); k != "" {
				return "missed/input/" + k
			}
		}
		return "missed/contract-action"
	}
	if g.contract[*tx.TxHash()] {
		return "spurious/contract-action-while-unsubscribed"
	}
	return "spurious/no-subscribed-push"
}

// ---- sub-check 1: sequential model comparison ---------------------------------------------------

func runC08Model(c *Ctx) {
	t := c.Scen
	isTest := t.Bool(1, 2)
	g := newC08gen(t, isTest)
	S := simrt.New(c.Sched)
	S.PreemptDen = 0
	done := false
	var panicked interface{}
	simrt.Go("driver", func() {
		defer func() { done = true }()
		defer func() {
			if r := recover(); r != nil {
				panicked = r
			}
		}()
		cfg := config.Config{Net: bitcoin.MainNet, IsTest: isTest}
		node := spynode.NewNode(cfg, NewSimDisk(), nil, nil)
		var m c08model
		var hist []string
		nOps := 4 + int(t.Choose(40))
		queries := 0
		cur := ""
		defer func() {
			if r := recover(); r != nil {
				c.Violate("panic", "IsRelevant", "the filter panicked on %s after %s: %v", cur, strings.Join(hist, " "), r)
				c.Probe("query_judged")
			}
		}()
		for i := 0; i < nOps; i++ {
			if t.Bool(2, 5) {
				o := g.genSubOp(true)
				hist = append(hist, o.String())
				cur = o.String()
				if err := g.applyToNode(node, o); err != nil {
					c.Violate("subscribe-error", o.kind, "%s returned %v", o, err)
				}
				m = m.apply(o)
				simrt.Eventf("op", "%s", o)
				continue
			}
			tx := g.newTx()
			cur = "tx" + g.describeTx(tx)
			got := node.IsRelevant(quietCtx(), tx)
			want := g.relevant(m, tx)
			queries++
			simrt.Eventf("query", "%s -> %v", shortHash(*tx.TxHash()), got)
			c.Probe("query_judged")
			if want {
				c.Probe("relevant_expected")
			} else {
				c.Probe("irrelevant_expected")
			}
			if got != want {
				c.Violate("filter-mismatch", g.classify(m, tx, want),
					"IsRelevant = %v, reference = %v (isTest=%v subscriptions=%v contracts=%v) after %s; tx:%s",
					got, want, isTest, m.counts, m.contract, strings.Join(hist, " "), g.describeTx(tx))
				return
			}
		}
		// unsubscribing everything that was subscribed leaves nothing relevant by push data
		for u := 0; u < c08Universe; u++ {
			for m.counts[u] > 0 {
				o := c08op{kind: "unsub", items: []int{u}, forms: []bool{t.Bool(1, 2)}}
				g.applyToNode(node, o)
				m = m.apply(o)
			}
		}
		if m.contract {
			g.applyToNode(node, c08op{kind: "unsubC"})
			m = m.apply(c08op{kind: "unsubC"})
		}
		for u := 0; u < c08Universe; u++ {
			tx := wire.NewMsgTx(1)
			tx.AddTxOut(wire.NewTxOut(1, encodePush(0, g.hash[u][:])))
			tx.AddTxOut(wire.NewTxOut(1, encodePush(0, g.raw[u])))
			if node.IsRelevant(quietCtx(), tx) {
				c.Violate("filter-mismatch", "spurious/after-unsubscribing-everything", "after unsubscribing every subscription (%s) a push of U%d is still relevant", strings.Join(hist, " "), u)
				break
			}
		}
		c.Probe("drained_checked")
		c.Res.Nontrivial = queries > 0
	})
	S.Run(func() bool { return done })
	if panicked != nil {
		c.Violate("panic", "driver", "panic: %v", panicked)
	}
	for k := range g.kinds {
		if strings.HasPrefix(k, "overlong") || strings.HasPrefix(k, "truncated") {
			c.Probe("malformed_script")
		}
		if strings.HasPrefix(k, "action-C2") || strings.HasPrefix(k, "action-I2") {
			c.Probe("contract_action")
		}
		if strings.HasPrefix(k, "pushdata") {
			c.Probe("pushdata_form")
		}
	}
	c.Res.Summary = fmt.Sprintf("isTest=%v kinds=%d", isTest, len(g.kinds))
}

// ---- sub-check 2: concurrent callers, linearizability -------------------------------------------

type c08in struct {
	op    c08op
	match [c08Universe]bool // query: which universe values the tx's complete pushes hit
	wide  bool              // query: carries a contract-wide action
}

func runC08Concurrent(c *Ctx) {
	t := c.Scen
	isTest := t.Bool(1, 2)
	g := newC08gen(t, isTest)
	S := simrt.New(c.Sched)
	S.PreemptDen = uint32(pickFrom(t, 2, 2, 3, 4))
	// The filter reads the contract flag and the push-data set under two different locks, so a
	// query concurrent with changes to both is not one atomic read and the statement does not ask
	// for that. Each run therefore changes only one of the two components concurrently; the other
	// is set up before the tasks start.
	mode := pickStr(t, "pushdata", "pushdata", "contracts")
	cfg := config.Config{Net: bitcoin.MainNet, IsTest: isTest}
	var node *spynode.Node
	var ops []porcupine.Operation
	var stamp int64
	nTasks := 2 + int(t.Choose(3))
	perTask := 2 + int(t.Choose(5))
	finished := 0
	var init c08model
	var panics []string
	simrt.Go("setup", func() {
		node = spynode.NewNode(cfg, NewSimDisk(), nil, nil)
		for i := int(t.Choose(4)); i > 0; i-- {
			o := g.genSubOp(true)
			g.applyToNode(node, o)
			init = init.apply(o)
		}
		// pre-generate every task's operations so generation does not interleave with the schedule
		plans := make([][]c08in, nTasks)
		for k := 0; k < nTasks; k++ {
			for j := 0; j < perTask; j++ {
				var in c08in
				if t.Bool(1, 2) {
					in.op = g.genSubOp(mode == "contracts")
					if mode == "contracts" && (in.op.kind == "sub" || in.op.kind == "unsub") {
						in.op = c08op{kind: pickStr(t, "subC", "unsubC")}
					}
				} else {
					tx := g.newTx()
					in.op = c08op{kind: "query", tx: tx}
					for u := 0; u < c08Universe; u++ {
						in.match[u] = refRelevant(tx, map[[20]byte]int{g.hash[u]: 1})
					}
					in.wide = g.contract[*tx.TxHash()]
				}
				plans[k] = append(plans[k], in)
			}
		}
		for k := 0; k < nTasks; k++ {
			k := k
			simrt.Go(fmt.Sprintf("caller-%d", k), func() {
				defer func() {
					if r := recover(); r != nil {
						panics = append(panics, fmt.Sprint(r))
					}
					finished++
				}()
				for _, in := range plans[k] {
					simrt.ForceYield()
					stamp++
					call := stamp
					var out bool
					if in.op.kind == "query" {
						out = node.IsRelevant(quietCtx(), in.op.tx)
					} else {
						g.applyToNode(node, in.op)
					}
					stamp++
					simrt.Eventf("done", "c%d %s -> %v", k, in.op, out)
					ops = append(ops, porcupine.Operation{ClientId: k, Input: in, Call: call, Output: out, Return: stamp})
				}
			})
		}
	})
	S.Run(func() bool { return finished == nTasks })
	for _, p := range panics {
		c.Violate("panic", "concurrent", "panic in a concurrent caller: %s", p)
	}
	if finished != nTasks {
		if len(c.Res.Violations) == 0 {
			c.Res.Inconclusive = "callers-stuck"
		}
		return
	}
	overlap := false
	for i := range ops {
		for j := range ops {
			if i != j && ops[i].Call < ops[j].Call && ops[j].Call < ops[i].Return {
				overlap = true
			}
		}
	}
	if overlap {
		c.Probe("overlapping_calls")
	}
	model := porcupine.Model{
		Init: func() interface{} { return init },
		Step: func(state, input, output interface{}) (bool, interface{}) {
			m := state.(c08model)
			in := input.(c08in)
			if in.op.kind != "query" {
				return true, m.apply(in.op)
			}
			want := m.contract && in.wide
			for u := 0; u < c08Universe; u++ {
				if in.match[u] && m.counts[u] > 0 {
					want = true
				}
			}
			return output.(bool) == want, m
		},
		Equal: func(a, b interface{}) bool { return a.(c08model) == b.(c08model) },
	}
	res := porcupine.CheckOperationsTimeout(model, ops, 20*time.Second)
	switch res {
	case porcupine.Illegal:
		var sb strings.Builder
		for _, o := range ops {
			in := o.Input.(c08in)
			fmt.Fprintf(&sb, " [%d,%d]c%d:%s", o.Call, o.Return, o.ClientId, in.op)
			if in.op.kind == "query" {
				fmt.Fprintf(&sb, "=%v(match=%v wide=%v)", o.Output, in.match, in.wide)
			}
		}
		c.Violate("not-linearizable", mode, "no sequential order of the concurrent subscribe/unsubscribe/IsRelevant calls explains the results (initial %v contracts=%v):%s", init.counts, init.contract, sb.String())
	case porcupine.Unknown:
		c.Res.Inconclusive = "porcupine-timeout"
		return
	}
	c.Probe("history_checked")
	c.Res.Nontrivial = true
	c.Res.Summary = fmt.Sprintf("mode=%s tasks=%d ops=%d preempt=1/%d", mode, nTasks, len(ops), S.PreemptDen)
}

// ---- sub-check 3: delivery through the running node ---------------------------------------------

func runC08Delivery(c *Ctx) {
	t := c.Scen
	var g *c08gen
	var ops []c08op
	var m c08model
	o := txGenOpts{conflicts: 0, blocks: true, untrusted: true, chains: true, local: true, maxTxs: 10}
	o.prepare = func(ns *NodeSim) {
		ns.Cfg.IsTest = t.Bool(1, 2)
		g = newC08gen(t, ns.Cfg.IsTest)
		for i := 1 + int(t.Choose(8)); i > 0; i-- {
			op := g.genSubOp(true)
			ops = append(ops, op)
			m = m.apply(op)
		}
	}
	o.subSetup = func(node *spynode.Node) {
		for _, op := range ops {
			g.applyToNode(node, op)
		}
	}
	o.rel = func(tx *wire.MsgTx) bool { return g.relevant(m, tx) }
	o.mkTx = func(w *TxWorld, spends []wire.OutPoint, nOut int) (*wire.MsgTx, bool) {
		tx := wire.NewMsgTx(1)
		g.fill(tx, spends, nOut)
		w.Txs[*tx.TxHash()] = tx
		return tx, g.relevant(m, tx)
	}
	runTxCheck(c, o, func(e *txEval) {
		e.checkDelivery(c)
		for _, ts := range e.tr.sc.txs {
			if ts.relevant && g.contract[ts.id] && !refRelevant(ts.tx, g.subsOf(m)) {
				c.Probe("contract_only_relevant")
			}
		}
	})
}

func minInt(a, b int) int {
	if a < b {
		return a
	}
	return b
}

var c08Real = []string{"internal/spynode.Node (SubscribePushDatas, UnsubscribePushDatas, SubscribeContracts, UnsubscribeContracts, IsRelevant, checkContracts)", "tokenized/pkg bitcoin.ParsePushDataScript", "tokenized/specification protocol.Deserialize"}
var c08Stub = []string{"goroutine scheduling (simrt baton)", "clock (synctest)", "storage (simdisk, unused by the filter)"}

func init() {
	Register(&Check{Prop: "C08", Sub: "filter-model", Weight: 3, Real: c08Real, Stub: c08Stub,
		Req:  []string{"query_judged", "relevant_expected", "irrelevant_expected", "malformed_script", "contract_action", "pushdata_form", "drained_checked"},
		Rule: "4-43 operations per run: subscribe/unsubscribe lists (0-3 items of a 6-value universe, each as raw data or as its 20-byte value), contract subscribe/unsubscribe, and IsRelevant queries on transactions with 0-2 inputs and 0-3 outputs whose scripts come from the grammar (direct pushes, PUSHDATA1/2/4 of any length incl. non-minimal, small-int and other opcodes, empty pushes, pushes running past the end whose trailing bytes contain a subscribed value, truncated length fields, cut at an arbitrary byte) or carry one of 14 Tokenized actions in envelope v0/v1 for the node's or the other network's protocol id; each answer compared with the reference walker over the reference multiset; at the end everything is unsubscribed and no universe value may still match.",
		Run:  runC08Model})
	Register(&Check{Prop: "C08", Sub: "filter-concurrent", Weight: 1, Real: c08Real, Stub: c08Stub,
		Req:  []string{"history_checked", "overlapping_calls"},
		Rule: "2-4 caller tasks with 2-6 pre-generated operations each, interleaved by the tape at every lock; invoke/return stamped with a global counter; history checked with porcupine against the sequential multiset+flag model (per run only one of the two components, push data or contract flag, is changed concurrently).",
		Run:  runC08Concurrent})
	Register(&Check{Prop: "C08", Sub: "delivery", Weight: 1, Real: txReal, Stub: txStub,
		Req:  []string{"in_sync_reached", "tx_delivered", "contract_only_relevant"},
		Rule: "the C03 transaction scenario (peers, invs, bodies, blocks, local submissions, restarts re-applying the subscriptions) with grammar scripts in every input and output and a 1-8 operation subscription history applied before the node starts; a transaction is delivered iff the reference filter says relevant.",
		Run:  runC08Delivery})
}
