//go:build go1.26

package verifsim

import (
	"fmt"
	"strings"
	"time"

	"github.com/tokenized/pkg/wire"
	"github.com/tokenized/spynode/pkg/client"
	"verif.local/simrt"
)

// ---- chain scenario generator (shared by C01, C10, C12, C19) ----------------------------------

type chainEvent struct {
	after time.Duration // delay after the previous event
	kind  string        // extend | reorg | flip | restart | reannounce | dropconn
	k, d  int
}

func (e chainEvent) String() string {
	return fmt.Sprintf("+%v %s(k=%d,d=%d)", e.after, e.kind, e.k, e.d)
}

type chainScenario struct {
	pre        int // blocks before the start block
	startFound bool
	initLen    int // blocks from the start block on, initially
	maxHeaders int
	events     []chainEvent
	preemptDen uint32
	faults     map[string]bool
	latBase    time.Duration
	latJitter  time.Duration
	frag       bool
}

func (sc chainScenario) String() string {
	var fl []string
	for _, k := range []string{"dup", "reorder", "reannounce", "stall", "close", "reset", "hole", "dial", "restart", "frag"} {
		if sc.faults[k] {
			fl = append(fl, k)
		}
	}
	return fmt.Sprintf("pre=%d start=%v init=%d annchunk=%d preempt=1/%d lat=%v+%v faults=[%s] events=%v",
		sc.pre, sc.startFound, sc.initLen, sc.maxHeaders, sc.preemptDen, sc.latBase, sc.latJitter, strings.Join(fl, ","), sc.events)
}

func pickFrom(t *simrt.Tape, xs ...int) int { return xs[t.Choose(uint32(len(xs)))] }

func genChainScenario(c *Ctx, allowFaults bool) chainScenario {
	t := c.Scen
	sc := chainScenario{faults: map[string]bool{}}
	sc.pre = pickFrom(t, 0, 0, 1, 2, 3, 5, 8, 20)
	if c.Tier == "thorough" && t.Bool(1, 12) {
		sc.pre = pickFrom(t, 995, 998, 999, 1000, 1001, 1003, 2001)
	}
	sc.startFound = !t.Bool(1, 25)
	sc.initLen = pickFrom(t, 1, 2, 3, 4, 6, 9, 11, 14, 23, 35)
	sc.maxHeaders = pickFrom(t, 2000, 2000, 2000, 1, 2, 3, 10, 7) // headers per announcement message
	sc.preemptDen = uint32(pickFrom(t, 0, 2, 3, 4, 8, 16, 64))
	sc.latBase = time.Duration(pickFrom(t, 1, 2, 5, 20, 80, 300)) * time.Millisecond
	sc.latJitter = time.Duration(pickFrom(t, 0, 1, 5, 30, 200)) * time.Millisecond
	n := int(t.Choose(7))
	for i := 0; i < n; i++ {
		ev := chainEvent{}
		switch t.Choose(12) {
		case 0, 1, 2, 3:
			ev.kind = "extend"
			ev.k = pickFrom(t, 1, 1, 1, 2, 3, 5, 12)
		case 4, 5, 6, 7:
			ev.kind = "reorg"
			ev.d = pickFrom(t, 1, 1, 2, 3, 4, 6, 11, 15)
			ev.k = ev.d + pickFrom(t, 0, 1, 1, 2, 4)
			if t.Bool(1, 10) {
				ev.k = ev.d // equal length (real nodes announce only longer chains; still a best-chain change)
				ev.k++
			}
		case 8, 9:
			ev.kind = "flip"
			ev.k = pickFrom(t, 1, 2, 3)
		case 10:
			ev.kind = "reannounce"
		default:
			ev.kind = "extend"
			ev.k = 1
		}
		// timing: biased to land inside activity (ms after the previous) or in quiet periods
		switch t.Choose(6) {
		case 0:
			ev.after = time.Duration(t.Choose(30)) * time.Millisecond
		case 1, 2:
			ev.after = time.Duration(t.Choose(800)) * time.Millisecond
		case 3:
			ev.after = time.Duration(1+t.Choose(5)) * time.Second
		case 4:
			ev.after = time.Duration(10+t.Choose(100)) * time.Second
		default:
			ev.after = time.Duration(t.Choose(250)) * time.Millisecond
		}
		sc.events = append(sc.events, ev)
	}
	if allowFaults {
		for _, k := range []string{"dup", "reorder", "reannounce", "stall", "close", "reset", "hole", "dial", "restart", "frag"} {
			if t.Bool(1, 5) {
				sc.faults[k] = true
			}
		}
	}
	sc.frag = sc.faults["frag"]
	return sc
}

// chainRun wires a NodeSim from a scenario. It returns the sim and a function that applies the
// scripted events (to be called from the driver task).
type chainRun struct {
	ns       *NodeSim
	sc       chainScenario
	oldTips  []*WBlock
	connFaultsLeft int
}

func newChainRun(c *Ctx, sc chainScenario) *chainRun {
	ns := NewNodeSim(c)
	ns.S.PreemptDen = sc.preemptDen
	if len(sc.faults) > 0 { // the fault-free configuration stays fault-free
		maybeStalls(c, ns.S, 2, 10, 50)
	}
	t := c.Scen
	cr := &chainRun{ns: ns, sc: sc}
	tip := ns.BuildChain(ns.Tree.Genesis, sc.pre, nil)
	first := ns.BuildChain(tip, 1, nil)
	if sc.startFound {
		ns.Start = first
	}
	tip = ns.BuildChain(first, sc.initLen-1, nil)
	p := ns.Trusted
	p.Best = tip
	p.AnnounceChunk = sc.maxHeaders
	if sc.faults["dup"] {
		p.DupHeaders, p.DupBlock, p.DupBudget = 200, 200, 2+int(t.Choose(6))
		c.FaultConfigured("F-peer-dup")
	}
	if sc.faults["reorder"] {
		p.ReorderBlock = 500
		c.FaultConfigured("F-peer-reorder")
	}
	if sc.faults["stall"] {
		p.StallBudget, p.StallRate = 1+int(t.Choose(2)), 60
		c.FaultConfigured("F-peer-stall")
	}
	for _, k := range []string{"close", "reset", "hole"} {
		if sc.faults[k] {
			cr.connFaultsLeft++
			c.FaultConfigured("F-" + k)
		}
	}
	// connection faults: at a tape-chosen write of a tape-chosen connection
	type cf struct {
		kind string
		at   int
		side int
		conn int
	}
	var cfs []cf
	for _, k := range []string{"close", "reset", "hole"} {
		if sc.faults[k] {
			cfs = append(cfs, cf{kind: k, at: int(t.Choose(60)), side: int(t.Choose(2)), conn: int(t.Choose(2))})
		}
	}
	connNo := -1
	ns.LinkFor = func(addr string) *Link {
		l := &Link{BaseLatency: sc.latBase, Jitter: sc.latJitter, Tape: c.Scen, Frag: sc.frag, Coalesce: c.Scen.Bool(1, 2),
			HoleFor: time.Duration(1+c.Scen.Choose(600)) * time.Second}
		if addr == trustedAddr {
			connNo++
			my := connNo
			l.FaultAtWrite = func(n, side int) string {
				for i := range cfs {
					f := &cfs[i]
					if f.kind != "" && f.conn == my && f.side == side && f.at == n {
						k := f.kind
						f.kind = ""
						c.FaultFired("F-" + k)
						ns.Touch()
						simrt.Eventf("fault", "conn %s at write %d side %d", k, n, side)
						return k
					}
				}
				return ""
			}
		}
		return l
	}
	if sc.faults["dial"] {
		c.FaultConfigured("F-dial")
		refuse := 1 + int(t.Choose(3))
		which := int(t.Choose(3)) // which dial attempt starts failing
		hang := t.Bool(1, 3)
		ns.DialFail = func(addr string, n int) string {
			if addr == trustedAddr && n >= which && n < which+refuse {
				c.FaultFired("F-dial")
				ns.Touch()
				if hang {
					return "hang"
				}
				return "refuse"
			}
			return ""
		}
	}
	if sc.faults["restart"] {
		c.FaultConfigured("F-restart")
	}
	if sc.faults["frag"] {
		c.FaultConfigured("F-frag")
		c.FaultFired("F-frag")
	}
	return cr
}

// apply performs one scripted best-chain change.
func (cr *chainRun) apply(ev chainEvent) {
	ns := cr.ns
	p := ns.Trusted
	before := p.Best
	defer func() {
		if fp := ForkPoint(before, p.Best); fp != before {
			ns.ForkEvents = append(ns.ForkEvents, ForkEvent{At: ns.S.Now(), ForkHeight: fp.Height})
		}
	}()
	switch ev.kind {
	case "extend":
		p.SetBest(ns.BuildChain(p.Best, ev.k, nil))
		ns.c.Probe("extend")
	case "reorg":
		d := ev.d
		if d > p.Best.Height-1 {
			d = p.Best.Height - 1
		}
		if d < 1 {
			p.SetBest(ns.BuildChain(p.Best, 1, nil))
			break
		}
		fork := Ancestor(p.Best, p.Best.Height-d)
		cr.oldTips = append(cr.oldTips, p.Best)
		p.SetBest(ns.BuildChain(fork, ev.k, nil))
		ns.c.Probe("reorg")
		if ns.Start != nil && fork.Height < ns.Start.Height {
			ns.c.Probe("reorg_below_start")
		}
	case "flip":
		// back to a previously abandoned branch, extended beyond the current tip
		if len(cr.oldTips) == 0 {
			p.SetBest(ns.BuildChain(p.Best, 1, nil))
			break
		}
		old := cr.oldTips[len(cr.oldTips)-1]
		cr.oldTips[len(cr.oldTips)-1] = p.Best
		need := p.Best.Height - old.Height + ev.k
		if need < 1 {
			need = 1
		}
		p.SetBest(ns.BuildChain(old, need, nil))
		ns.c.Probe("flipflop")
	case "reannounce":
		p.ReannounceTip()
		ns.c.FaultFired("F-peer-unsolicited")
	}
	ns.Touch()
	simrt.Eventf("scenario", "%s -> best %s", ev, p.Best)
}

// converged reports whether the node's chain equals the peer's best chain from the start height up.
func (cr *chainRun) converged() (bool, string) {
	ns := cr.ns
	node := ns.Node
	best := ns.Trusted.Best
	ctx := ns.ctx()
	h := node.LastHeight(ctx)
	if h != best.Height {
		return false, fmt.Sprintf("LastHeight %d, peer tip height %d", h, best.Height)
	}
	chain := Chain(best)
	from := 0
	if ns.Start != nil {
		from = ns.Start.Height
	} else {
		from = best.Height // only the tip is comparable when nothing is processed
	}
	for i := from; i <= best.Height; i++ {
		got, err := node.Hash(ctx, i)
		if err != nil || *got != chain[i].Hash {
			return false, fmt.Sprintf("Hash(%d) = %v (err %v), peer has %s", i, got, err, shortHash(chain[i].Hash))
		}
	}
	got, err := node.BlockHash(ctx, -1)
	if err != nil || *got != best.Hash {
		return false, fmt.Sprintf("BlockHash(-1) = %v (err %v), peer tip %s", got, err, shortHash(best.Hash))
	}
	return true, ""
}

// installInSyncOracle installs the C01 in-sync clause (Appendix C of DESIGN.md).
func (cr *chainRun) installInSyncOracle(clause string) {
	ns := cr.ns
	ns.OnInSync = func() {
		ns.c.Probe("in_sync_reached")
		pc := ns.Trusted.Live()
		if pc == nil {
			return
		}
		hm := pc.LastConsumedHeaders()
		if hm == nil {
			return
		}
		last := ns.Tree.ByHash[*hm.Headers[len(hm.Headers)-1].BlockHash()]
		if last == nil {
			return
		}
		from := 0
		if ns.Start == nil {
			return
		}
		from = ns.Start.Height
		blocks := ns.Node.VerifBlocks()
		for b := last; b != nil && b.Height >= from; b = b.Parent {
			if _, ok := blocks.Height(&b.Hash); !ok {
				ns.c.Violate(clause, "callback=HandleInSync/announced-block-not-held",
					"HandleInSync delivered at t=%v while announced block %s (height %d, announced in a headers message the node had fully read) is not in the node's chain (node height %d)",
					ns.S.Now(), shortHash(b.Hash), b.Height, blocks.LastHeight())
				return
			}
		}
	}
}

const settleBudget = 45 * time.Minute

// settle waits (simulated) until the node converged or the budget after the last change expired.
func (cr *chainRun) settle() (bool, string) { return cr.settleWithin(settleBudget) }

func (cr *chainRun) settleWithin(settleBudget time.Duration) (bool, string) {
	ns := cr.ns
	why := ""
	for {
		ok, w := cr.converged()
		if ok {
			return true, ""
		}
		why = w
		if ns.S.Now() > ns.LastChange+settleBudget {
			return false, why
		}
		if ns.RunDone && ns.S.Now() > ns.RunDoneAt+2*time.Second {
			return false, why + " (Run has returned)"
		}
		step := time.Second
		if ns.S.Now() > ns.LastChange+2*time.Minute {
			step = 10 * time.Second
		}
		simrt.Sleep(step)
	}
}

func lastSUTRequest(ns *NodeSim) string {
	for i := len(ns.Received) - 1; i >= 0; i-- {
		switch ns.Received[i].Msg.(type) {
		case *wire.MsgGetHeaders, *wire.MsgGetData:
			return fmt.Sprintf("%s at t=%v on %s", msgBrief(ns.Received[i].Msg), ns.Received[i].At, ns.Received[i].Conn)
		}
	}
	return "none"
}

func runC01(c *Ctx, allowFaults bool) {
	sc := genChainScenario(c, allowFaults)
	cr := newChainRun(c, sc)
	ns := cr.ns
	c.Res.Summary = sc.String()
	cr.installInSyncOracle("insync-early")
	done := false
	simrt.Go("driver", func() {
		defer func() { done = true }()
		ns.StartNode()
		restartAt := -1
		if sc.faults["restart"] && len(sc.events) > 0 {
			restartAt = int(c.Scen.Choose(uint32(len(sc.events) + 1)))
		}
		for i, ev := range sc.events {
			if i == restartAt {
				cr.restart()
			}
			simrt.Sleep(ev.after)
			cr.apply(ev)
		}
		if restartAt == len(sc.events) {
			simrt.Sleep(time.Duration(c.Scen.Choose(3000)) * time.Millisecond)
			cr.restart()
		}
		ok, why := cr.settle()
		if !ok {
			clause := "stall"
			if strings.HasPrefix(why, "Hash(") || strings.HasPrefix(why, "BlockHash") {
				clause = "wrong-chain"
			}
			c.Violate(clause, stallKey(ns), "%v after the last change/fault the node has not converged: %s; run returned=%v err=%v; last request: %s",
				settleBudget, why, ns.RunDone, ns.RunErr, lastSUTRequest(ns))
		}
		c.Res.Nontrivial = len(sc.events) > 0 || len(c.Res.Faults) > 0
	})
	ns.S.Run(func() bool { return done })
	if !done && len(c.Res.Violations) == 0 && c.Res.Inconclusive == "" && !ns.S.Zeno && !ns.S.StepCap {
		c.Res.Inconclusive = "driver-stuck"
	}
	reportPanics(c, ns)
}

// reportPanics turns panics of SUT tasks into violations and panics of harness tasks into
// harness trouble (never a VIOLATION).
func reportPanics(c *Ctx, ns *NodeSim) {
	for _, p := range ns.S.Panics {
		k := panicKey(p)
		if k == "unknown" {
			c.Violate("harness-panic", "harness", "%s", p)
		} else {
			c.Violate("panic", k, "%s", p)
		}
	}
}

// stallKey classifies a convergence failure by what the node was last seen doing.
func stallKey(ns *NodeSim) string {
	if ns.RunDone {
		return "run-returned"
	}
	st := ns.Node.VerifState()
	k := "node-running"
	if st.IsReady() {
		k += "/in-sync-flag-set"
	} else {
		k += "/not-in-sync"
	}
	if st.TotalBlockRequestCount() > 0 {
		k += "/requests-outstanding"
	}
	return k
}

func panicKey(p string) string {
	// first source line inside the repository (not the harness)
	for _, line := range strings.Split(p, "\n") {
		line = strings.TrimSpace(line)
		if !strings.HasPrefix(line, "/") || !strings.Contains(line, ".go:") || strings.Contains(line, "verifsim") {
			continue
		}
		if strings.Contains(line, "/internal/") || strings.Contains(line, "/pkg/client/") {
			f := line[strings.LastIndex(line, "/")+1:]
			if j := strings.Index(f, " "); j >= 0 {
				f = f[:j]
			}
			return f
		}
	}
	return "unknown"
}

// restart performs a clean stop and starts a new node instance on the same disk.
func (cr *chainRun) restart() {
	ns := cr.ns
	ns.c.FaultFired("F-restart")
	simrt.Eventf("scenario", "clean restart")
	if !ns.StopNode(10 * time.Minute) {
		ns.c.Violate("stop-hang", "restart", "Stop did not complete within 10 simulated minutes")
		return
	}
	ns.Touch()
	ns.StartNode()
}

var _ = client.Headers{}

func init() {
	real := []string{"internal/spynode.Node (Run, all goroutines, Stop)", "internal/handlers (all trusted handlers)", "internal/state", "internal/storage repositories", "pkg/wire framing"}
	stub := []string{"OutputFetcher/TxFetcher (world model)", "logger.NewWaitingWarning (inert)", "transport (simnet)", "disk (simdisk)", "clock (synctest)", "goroutine scheduling (simrt baton)", "trusted peer (scripted model)"}
	Register(&Check{Prop: "C01", Sub: "converge-faultfree", Weight: 1, Real: real, Stub: stub, Req: []string{"in_sync_reached"},
		Rule: "block tree + best-chain change script + schedule drawn from the tape; non-trivial = at least one best-chain change or fired fault.",
		Run:  func(c *Ctx) { runC01(c, false) }})
	Register(&Check{Prop: "C01", Sub: "converge-faults", Weight: 2, Real: real, Stub: stub,
		Rule: "as converge-faultfree plus peer/connection/dial/restart faults, each enabled independently with probability 1/5.",
		Run:  func(c *Ctx) { runC01(c, true) }})
}
