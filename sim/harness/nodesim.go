//go:build go1.26

package verifsim

import (
	"context"
	"fmt"
	"net"
	"strings"
	"time"

	"github.com/tokenized/pkg/bitcoin"
	"github.com/tokenized/pkg/wire"
	"github.com/tokenized/spynode/internal/platform/config"
	"github.com/tokenized/spynode/internal/spynode"
	"github.com/tokenized/spynode/pkg/client"
	"verif.local/simrt"
)

// NodeSim is engine E1: the real spynode.Node (all goroutines, handlers, state, repositories)
// inside one bubble against scripted peers, a simulated disk and the simulated clock.
type NodeSim struct {
	c     *Ctx
	S     *simrt.Sched
	Tree  *Tree
	TxW   *TxWorld
	Disk  *SimDisk
	Cfg   config.Config
	Node  *spynode.Node
	Rec   *Recorder
	Rec2  *Recorder
	Trusted   *PeerModel
	Untrusted map[string]*PeerModel
	Start *WBlock // start block (nil: never found)
	SubData [][]byte
	KeepNodeWrites bool // keep what the node wrote on every connection (time, bytes)
	SubSetup func(node *spynode.Node) // alternative to SubData: arbitrary subscription calls before Run

	Received []WireEvent // SUT -> peers
	SentLog  []WireEvent // peers -> SUT
	Dials    []DialEvent
	DialFail func(addr string, n int) string // "", "refuse", "hang"
	LinkFor  func(addr string) *Link
	ConnEnds []ConnEnd
	Broadcasts []bitcoin.Hash32

	RunErr   error
	RunDone  bool
	RunDoneAt time.Duration
	NodeGen  int // incremented per node instance (restarts)
	LastChange time.Duration // last instant the scenario changed a chain or fired a fault
	OnHeaders func(h *client.Headers)
	OnInSync  func()

	// ForkEvents: best-chain changes of the trusted peer that abandoned blocks (time, fork height)
	ForkEvents []ForkEvent

	stopRequested   bool
	failedOp        string
	stopReturnedSeq uint64
	// firstLocator: per trusted connection, "" if the first header request started at the node's
	// stored tip, else a description (only recorded when the map is non-nil)
	firstLocator map[*PeerConn]string
}

type ForkEvent struct {
	At         time.Duration
	ForkHeight int
}

type DialEvent struct {
	At   time.Duration
	Addr string
	OK   bool
}

type ConnEnd struct {
	At   time.Duration
	Conn *PeerConn
}

const trustedAddr = "10.0.0.1:8333"

func NewNodeSim(c *Ctx) *NodeSim {
	ns := &NodeSim{c: c, Tree: NewTree(), TxW: NewTxWorld(), Disk: NewSimDisk(), Untrusted: map[string]*PeerModel{}}
	ns.S = simrt.New(c.Sched)
	ns.S.Trace = c.Trace
	ns.Cfg = config.Config{
		Net: bitcoin.MainNet, IsTest: true, NodeAddress: trustedAddr, UserAgent: "/sim/",
		UntrustedCount: 0, SafeTxDelay: 2000, ShotgunCount: 0, RequestMempool: false,
		MaxRetries: 25, RetryDelay: 2000,
	}
	ns.Trusted = &PeerModel{sim: ns, Name: "trusted", Trusted: true, Best: ns.Tree.Genesis, MaxHeaders: 2000,
		PingEvery: 20 * time.Second, tape: c.Scen}
	simrt.DialHook = ns.dial
	return ns
}

func (ns *NodeSim) AddUntrusted(addr string) *PeerModel {
	p := &PeerModel{sim: ns, Name: "untrusted-" + addr, Best: ns.Trusted.Best, MaxHeaders: 2000,
		PingEvery: 15 * time.Second, tape: ns.c.Scen}
	ns.Untrusted[addr] = p
	return p
}

func (ns *NodeSim) dial(network, addr string, timeout time.Duration) (net.Conn, error) {
	simrt.Yield()
	n := 0
	for _, d := range ns.Dials {
		if d.Addr == addr {
			n++
		}
	}
	var p *PeerModel
	if addr == ns.Cfg.NodeAddress {
		p = ns.Trusted
	} else {
		p = ns.Untrusted[addr]
	}
	mode := ""
	if ns.DialFail != nil {
		mode = ns.DialFail(addr, n)
	}
	if p == nil && mode == "" {
		mode = "refuse"
	}
	switch mode {
	case "refuse":
		ns.Dials = append(ns.Dials, DialEvent{At: ns.S.Now(), Addr: addr})
		simrt.Eventf("dial", "%s refused", addr)
		simrt.Sleep(time.Duration(1+ns.c.Scen.Choose(50)) * time.Millisecond)
		return nil, &dialError{"connection refused"}
	case "hang":
		ns.Dials = append(ns.Dials, DialEvent{At: ns.S.Now(), Addr: addr})
		simrt.Eventf("dial", "%s hangs", addr)
		d := timeout
		if d <= 0 {
			d = 75 * time.Second // OS connect time-out
		}
		simrt.Sleep(d)
		return nil, &dialError{"i/o timeout"}
	}
	link := &Link{BaseLatency: 5 * time.Millisecond, Jitter: 20 * time.Millisecond, Tape: ns.c.Scen}
	if ns.LinkFor != nil {
		link = ns.LinkFor(addr)
	}
	simrt.Sleep(link.latency())
	nodeSide, peerSide := NewConnPair(link, "node->"+addr, addr)
	ns.Dials = append(ns.Dials, DialEvent{At: ns.S.Now(), Addr: addr, OK: true})
	simrt.Eventf("dial", "%s connected", addr)
	nodeSide.KeepWrites = ns.KeepNodeWrites
	p.accept(peerSide, nodeSide)
	return nodeSide, nil
}

func msgBrief(m wire.Message) string {
	switch x := m.(type) {
	case *wire.MsgHeaders:
		if len(x.Headers) == 0 {
			return "headers[]"
		}
		return fmt.Sprintf("headers[%d %s..%s]", len(x.Headers), shortHash(*x.Headers[0].BlockHash()), shortHash(*x.Headers[len(x.Headers)-1].BlockHash()))
	case *wire.MsgGetHeaders:
		if len(x.BlockLocatorHashes) == 0 {
			return "getheaders[]"
		}
		return fmt.Sprintf("getheaders[%d first=%s]", len(x.BlockLocatorHashes), shortHash(*x.BlockLocatorHashes[0]))
	case *wire.MsgGetData:
		var sb strings.Builder
		for _, iv := range x.InvList {
			fmt.Fprintf(&sb, "%d:%s ", iv.Type, shortHash(iv.Hash))
		}
		return "getdata[" + strings.TrimSpace(sb.String()) + "]"
	case *wire.MsgInv:
		var sb strings.Builder
		for _, iv := range x.InvList {
			fmt.Fprintf(&sb, "%d:%s ", iv.Type, shortHash(iv.Hash))
		}
		return "inv[" + strings.TrimSpace(sb.String()) + "]"
	case *wire.MsgBlock:
		return fmt.Sprintf("block[%s txs=%d]", shortHash(*x.Header.BlockHash()), len(x.Transactions))
	case *wire.MsgTx:
		return fmt.Sprintf("tx[%s]", shortHash(*x.TxHash()))
	case *wire.MsgVersion:
		return "version" // nonce masked
	}
	return m.Command()
}

const msgCap = 150000

func (ns *NodeSim) noteSent(ev WireEvent) {
	ns.SentLog = append(ns.SentLog, ev)
	if len(ns.SentLog) > msgCap && !ns.S.StepCap {
		// a request storm that does not end: stop the run as inconclusive rather than exhaust memory
		ns.S.StepCap = true
		ns.S.MaxSteps = 0
	}
	simrt.Eventf("peer>node", "%s %s", ev.Conn, msgBrief(ev.Msg))
}

func (ns *NodeSim) noteReceived(ev WireEvent) {
	ns.Received = append(ns.Received, ev)
	if gh, ok := ev.Msg.(*wire.MsgGetHeaders); ok && ns.firstLocator != nil && ev.Conn.P.Trusted && ns.Node != nil {
		if _, seen := ns.firstLocator[ev.Conn]; !seen {
			msg := ""
			simrt.NoPreempt(func() {
				tip := ns.Node.VerifBlocks().LastHash()
				if len(gh.BlockLocatorHashes) == 0 {
					msg = "empty locator"
				} else if *gh.BlockLocatorHashes[0] != *tip {
					msg = fmt.Sprintf("locator starts at %s, stored tip is %s (height %d)", shortHash(*gh.BlockLocatorHashes[0]), shortHash(*tip), ns.Node.VerifBlocks().LastHeight())
				}
			})
			ns.firstLocator[ev.Conn] = msg
		}
	}
	simrt.Eventf("node>peer", "%s %s", ev.Conn, msgBrief(ev.Msg))
}

func (ns *NodeSim) noteConnEnd(pc *PeerConn) {
	ns.ConnEnds = append(ns.ConnEnds, ConnEnd{At: ns.S.Now(), Conn: pc})
	simrt.Eventf("conn-end", "%s", pc)
}

func (ns *NodeSim) noteBroadcast(pc *PeerConn, tx *wire.MsgTx) {
	ns.Broadcasts = append(ns.Broadcasts, *tx.TxHash())
}

func (ns *NodeSim) Touch() { ns.LastChange = ns.S.Now() }

// BuildChain extends parent by n blocks; txsFor(i) supplies the transactions of the i-th block.
func (ns *NodeSim) BuildChain(parent *WBlock, n int, txsFor func(i int) []*wire.MsgTx) *WBlock {
	b := parent
	for i := 0; i < n; i++ {
		var txs []*wire.MsgTx
		if txsFor != nil {
			txs = txsFor(i)
		}
		b = ns.Tree.AddBlock(b, txs, true)
	}
	return b
}

// StartNode creates a node instance on the current disk and runs it as a task.
func (ns *NodeSim) StartNode() {
	ns.NodeGen++
	gen := ns.NodeGen
	cfg := ns.Cfg
	if ns.Start != nil {
		cfg.StartHash = ns.Start.Hash
	} else {
		cfg.StartHash = dsha([]byte("no-such-start-block"))
	}
	node := spynode.NewNode(cfg, ns.Disk, ns.TxW, ns.TxW)
	ns.Node = node
	if ns.Rec == nil {
		ns.Rec = NewRecorder(ns, "h1")
		ns.Rec2 = NewRecorder(ns, "h2")
	}
	node.RegisterHandler(ns.Rec)
	node.RegisterHandler(ns.Rec2)
	if len(ns.SubData) > 0 {
		node.SubscribePushDatas(quietCtx(), ns.SubData)
	}
	if ns.SubSetup != nil {
		ns.SubSetup(node)
	}
	ns.RunDone = false
	ns.RunErr = nil
	simrt.Go(fmt.Sprintf("node.Run#%d", gen), func() {
		err := node.Run(ns.ctx())
		if gen == ns.NodeGen {
			ns.RunErr = err
			ns.RunDone = true
			ns.RunDoneAt = ns.S.Now()
		}
		simrt.Eventf("run-returned", "gen=%d err=%v", gen, err)
	})
}

func (ns *NodeSim) ctx() context.Context { return quietCtx() }

// StopNode requests Stop and waits (bounded, in simulated time) for Run to return. Returns false
// on time-out.
func (ns *NodeSim) StopNode(bound time.Duration) bool {
	node := ns.Node
	stopReturned := false
	simrt.Go("node.Stop", func() {
		node.Stop(ns.ctx())
		stopReturned = true
	})
	deadline := ns.S.Now() + bound
	for ns.S.Now() < deadline {
		if ns.RunDone && stopReturned {
			return true
		}
		simrt.Sleep(50 * time.Millisecond)
	}
	return ns.RunDone && stopReturned
}

// ---- recorder ------------------------------------------------------------------------------------

type Callback struct {
	At     time.Duration
	Seq    uint64
	Gen    int
	Kind   string // tx | update | headers | insync | message
	Tx     *client.Tx
	Update *client.TxUpdate
	Headers *client.Headers
}

// Recorder is a recording client.Handler.
type Recorder struct {
	ns   *NodeSim
	Name string
	Log  []Callback
	Slow func(kind string) time.Duration
}

func NewRecorder(ns *NodeSim, name string) *Recorder { return &Recorder{ns: ns, Name: name} }

func (r *Recorder) add(cb Callback) {
	cb.At = r.ns.S.Now()
	cb.Seq = r.ns.S.Seq
	cb.Gen = r.ns.NodeGen
	r.Log = append(r.Log, cb)
	if r.Slow != nil {
		if d := r.Slow(cb.Kind); d > 0 {
			r.ns.c.FaultFired("F-slow")
			simrt.Sleep(d)
		}
	}
	simrt.Yield()
}

func stateStr(s client.TxState) string {
	var sb strings.Builder
	if s.Safe {
		sb.WriteString("safe ")
	}
	if s.UnSafe {
		sb.WriteString("unsafe ")
	}
	if s.Cancelled {
		sb.WriteString("cancelled ")
	}
	if s.MerkleProof != nil {
		fmt.Fprintf(&sb, "proof(idx=%d,blk=%s) ", s.MerkleProof.Index, shortHash(*s.MerkleProof.BlockHeader.BlockHash()))
	}
	fmt.Fprintf(&sb, "depth=%d", s.UnconfirmedDepth)
	return sb.String()
}

func (r *Recorder) HandleTx(ctx context.Context, tx *client.Tx) {
	cp := *tx
	simrt.Eventf("cb-tx", "%s %s %s", r.Name, shortHash(*tx.Tx.TxHash()), stateStr(tx.State))
	r.add(Callback{Kind: "tx", Tx: &cp})
}

func (r *Recorder) HandleTxUpdate(ctx context.Context, u *client.TxUpdate) {
	cp := *u
	simrt.Eventf("cb-update", "%s %s %s", r.Name, shortHash(u.TxID), stateStr(u.State))
	r.add(Callback{Kind: "update", Update: &cp})
}

func (r *Recorder) HandleHeaders(ctx context.Context, h *client.Headers) {
	cp := *h
	if len(h.Headers) > 0 {
		simrt.Eventf("cb-headers", "%s start=%d n=%d first=%s", r.Name, h.StartHeight, len(h.Headers), shortHash(*h.Headers[0].BlockHash()))
	}
	if r.Name == "h1" && r.ns.OnHeaders != nil {
		simrt.NoPreempt(func() { r.ns.OnHeaders(h) })
	}
	r.add(Callback{Kind: "headers", Headers: &cp})
}

func (r *Recorder) HandleInSync(ctx context.Context) {
	simrt.Eventf("cb-insync", "%s", r.Name)
	if r.Name == "h1" && r.ns.OnInSync != nil {
		simrt.NoPreempt(func() { r.ns.OnInSync() })
	}
	r.add(Callback{Kind: "insync"})
}

func (r *Recorder) HandleMessage(ctx context.Context, p client.MessagePayload) {
	r.add(Callback{Kind: "message"})
}

var _ client.Handler = (*Recorder)(nil)
