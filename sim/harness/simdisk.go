//go:build go1.26

package verifsim

import (
	"bytes"
	"context"
	"errors"
	"fmt"
	"sort"
	"strings"
	"time"

	"github.com/tokenized/pkg/storage"
	"verif.local/simrt"
)

// Mutation is one durable change of the simulated disk.
type Mutation struct {
	Seq  int
	Op   string // "write" | "remove"
	Key  string
	Data []byte
}

// SimDisk implements storage.Storage over an in-memory map with a mutation log, fault injection
// at the granularity of individual operations, and optional fake latency.
type SimDisk struct {
	data map[string][]byte
	Log  []Mutation
	// RemoveMissingErr: Remove of a missing key returns storage.ErrNotFound (MockStorage
	// behaviour) instead of nil (filesystem behaviour).
	RemoveMissingErr bool
	// FailOp, if non-nil, decides whether operation number n (0-based, counted over all
	// operations of this disk) of the given kind fails.
	FailOp  func(n int, kind, key string) error
	OpCount int
	Reads   int
	Writes  int
	Removes int
	Latency func() time.Duration
	// OnMutation is called after every mutation (recording / crash-point enumeration).
	OnMutation func(m Mutation)
	Frozen     bool // mutations are dropped (dirty crash: old instance keeps running)
	keepLog    bool
}

var ErrInjected = errors.New("injected storage fault")

func NewSimDisk() *SimDisk { return &SimDisk{data: map[string][]byte{}, keepLog: true} }

// Clone copies the current image (not the log).
func (d *SimDisk) Clone() *SimDisk {
	n := NewSimDisk()
	n.RemoveMissingErr = d.RemoveMissingErr
	for k, v := range d.data {
		n.data[k] = append([]byte(nil), v...)
	}
	return n
}

// ImageAt rebuilds "initial image + first i mutations" of the log.
func ImageAt(initial *SimDisk, log []Mutation, i int) *SimDisk {
	n := initial.Clone()
	for _, m := range log[:i] {
		if m.Op == "write" {
			n.data[m.Key] = append([]byte(nil), m.Data...)
		} else {
			delete(n.data, m.Key)
		}
	}
	return n
}

func (d *SimDisk) Keys() []string {
	out := make([]string, 0, len(d.data))
	for k := range d.data {
		out = append(out, k)
	}
	sort.Strings(out)
	return out
}

func (d *SimDisk) Get(key string) ([]byte, bool) {
	v, ok := d.data[key]
	return v, ok
}

func (d *SimDisk) Put(key string, v []byte) { d.data[key] = append([]byte(nil), v...) }

func (d *SimDisk) op(kind, key string) error {
	simrt.Yield()
	if d.Latency != nil {
		if l := d.Latency(); l > 0 {
			simrt.Sleep(l)
		}
	}
	n := d.OpCount
	d.OpCount++
	if d.FailOp != nil {
		if err := d.FailOp(n, kind, key); err != nil {
			return err
		}
	}
	return nil
}

func (d *SimDisk) Read(ctx context.Context, key string) ([]byte, error) {
	d.Reads++
	if err := d.op("read", key); err != nil {
		return nil, err
	}
	v, ok := d.data[key]
	if !ok {
		return nil, storage.ErrNotFound
	}
	return append([]byte(nil), v...), nil
}

func (d *SimDisk) Write(ctx context.Context, key string, body []byte, o *storage.Options) error {
	d.Writes++
	if err := d.op("write", key); err != nil {
		return err
	}
	if d.Frozen {
		return nil
	}
	if old, ok := d.data[key]; ok && bytes.Equal(old, body) {
		return nil // rewriting identical content changes nothing a crash could expose
	}
	cp := append([]byte(nil), body...)
	d.data[key] = cp
	m := Mutation{Seq: len(d.Log), Op: "write", Key: key, Data: cp}
	if d.keepLog {
		d.Log = append(d.Log, m)
	}
	if d.OnMutation != nil {
		d.OnMutation(m)
	}
	return nil
}

func (d *SimDisk) Remove(ctx context.Context, key string) error {
	d.Removes++
	if err := d.op("remove", key); err != nil {
		return err
	}
	if _, ok := d.data[key]; !ok {
		if d.RemoveMissingErr {
			return storage.ErrNotFound
		}
		return nil
	}
	if d.Frozen {
		return nil
	}
	delete(d.data, key)
	m := Mutation{Seq: len(d.Log), Op: "remove", Key: key}
	if d.keepLog {
		d.Log = append(d.Log, m)
	}
	if d.OnMutation != nil {
		d.OnMutation(m)
	}
	return nil
}

func (d *SimDisk) Search(ctx context.Context, q map[string]string) ([][]byte, error) {
	path := q["path"]
	var out [][]byte
	for _, k := range d.Keys() {
		if strings.HasPrefix(k, path) {
			out = append(out, append([]byte(nil), d.data[k]...))
		}
	}
	return out, nil
}

func (d *SimDisk) Clear(ctx context.Context, q map[string]string) error {
	path := q["path"]
	for _, k := range d.Keys() {
		if strings.HasPrefix(k, path) {
			if err := d.Remove(ctx, k); err != nil {
				return err
			}
		}
	}
	return nil
}

func (d *SimDisk) List(ctx context.Context, path string) ([]string, error) {
	var out []string
	for _, k := range d.Keys() {
		if strings.HasPrefix(k, path) {
			out = append(out, k)
		}
	}
	return out, nil
}

func (d *SimDisk) Copy(ctx context.Context, from, to string) error {
	v, ok := d.data[from]
	if !ok {
		return storage.ErrNotFound
	}
	return d.Write(ctx, to, v, nil)
}

func (m Mutation) String() string {
	return fmt.Sprintf("#%d %s %s (%d bytes)", m.Seq, m.Op, m.Key, len(m.Data))
}

var _ storage.Storage = (*SimDisk)(nil)
