//go:build go1.26

package verifsim

import (
	"fmt"
	"strings"
	"time"

	"github.com/tokenized/pkg/bitcoin"
	"github.com/tokenized/pkg/wire"
	"github.com/tokenized/spynode/internal/storage"
	"verif.local/simrt"
)

// ---- C19: Stop terminates, persists, silences; reconnect resumes -------------------------------

const stopBound = 120 * time.Second

// checkStopped evaluates everything that must hold once Stop and Run have returned.
func checkStopped(c *Ctx, ns *NodeSim, stopRequested, stopReturned time.Duration, phase string) {
	// persistence: a fresh repository loaded from the disk equals the node's last in-memory chain
	ctx := quietCtx()
	mem := ns.Node.VerifBlocks()
	fresh := storage.NewBlockRepository(ns.Cfg, ns.Disk)
	if err := fresh.Load(ctx); err != nil {
		c.Violate("not-persisted", "blocks-load-error/"+phase, "after Stop the block store does not load: %v", err)
	} else {
		if fresh.LastHeight() != mem.LastHeight() {
			c.Violate("not-persisted", "blocks-height/"+phase, "after Stop the stored chain has height %d, the node's in-memory chain %d", fresh.LastHeight(), mem.LastHeight())
		} else {
			for h := 0; h <= mem.LastHeight(); h++ {
				a, e1 := mem.Hash(ctx, h)
				b, e2 := fresh.Hash(ctx, h)
				if e1 != nil || e2 != nil || *a != *b {
					c.Violate("not-persisted", "blocks-content/"+phase, "after Stop stored and in-memory chains differ at height %d", h)
					break
				}
			}
		}
	}
	txs := storage.NewTxRepository(ns.Disk)
	if err := txs.Load(ctx); err != nil {
		c.Violate("not-persisted", "unconfirmed-load-error/"+phase, "after Stop the unconfirmed set does not load: %v", err)
	} else {
		want := ns.Node.VerifTxs().VerifUnconfirmedSet()
		got := txs.VerifUnconfirmedSet()
		if len(want) != len(got) {
			c.Violate("not-persisted", "unconfirmed-count/"+phase, "after Stop %d unconfirmed entries are stored, the node tracked %d", len(got), len(want))
		} else {
			for id, w := range want {
				g, ok := got[id]
				if !ok || g.Safe != w.Safe || g.Unsafe != w.Unsafe || g.Trusted != w.Trusted || g.Time.UnixMilli() != w.Time.UnixMilli() {
					c.Violate("not-persisted", "unconfirmed-entry/"+phase, "after Stop the stored entry for %s differs from the tracked one", shortHash(id))
					break
				}
			}
		}
	}
	peers := storage.NewPeerRepository(ns.Disk)
	if err := peers.Load(ctx); err != nil {
		c.Violate("not-persisted", "peers-load-error/"+phase, "after Stop the peer list does not load: %v", err)
	} else if peers.Count() != ns.Node.VerifPeers().Count() {
		c.Violate("not-persisted", "peers-count/"+phase, "after Stop %d peers are stored, the node knows %d", peers.Count(), ns.Node.VerifPeers().Count())
	}
	// silence
	for _, rec := range []*Recorder{ns.Rec, ns.Rec2} {
		for _, cb := range rec.Log {
			if cb.At > stopReturned || (cb.At == stopReturned && cb.Seq > ns.stopReturnedSeq) {
				c.Violate("callback-after-stop", cb.Kind+"/"+phase, "handler %s received a %s callback at t=%v (event #%d) after Stop had returned at t=%v (event #%d)", rec.Name, cb.Kind, cb.At, cb.Seq, stopReturned, ns.stopReturnedSeq)
			}
		}
	}
}

// nodeTasksAlive lists tasks started by spynode code that have not finished.
func nodeTasksAlive(ns *NodeSim) []string {
	var out []string
	for _, l := range ns.S.LiveTasks(false) {
		if strings.Contains(l, " node.go:") || strings.Contains(l, " untrusted_node.go:") || strings.Contains(l, "node.Run#") || strings.Contains(l, "node.Stop") {
			out = append(out, l)
		}
	}
	return out
}

func runC19(c *Ctx, withTxs bool) {
	t := c.Scen
	var ns *NodeSim
	var cr *chainRun
	var tr *txRun
	var summary string
	var txsc *txScenario
	if withTxs {
		ns = NewNodeSim(c)
		sc := genTxScenario(c, ns.TxW, txGenOpts{conflicts: 1, blocks: true, untrusted: true, local: true, maxTxs: 12})
		sc.slowHandler = t.Bool(2, 3)
		txsc = sc
		tr = newTxRun(c, sc, ns)
		summary = sc.String()
		if t.Bool(1, 4) {
			// an outage of the external output service: the node gives up on that transaction or
			// block (and may stop itself); Stop must still return and the stores must still be saved
			c.FaultConfigured("F-fetch-fail")
			budget := 1 + int(t.Choose(2))
			ns.TxW.FetchFail = func() bool {
				if budget > 0 && t.Bool(1, 3) {
					budget--
					c.FaultFired("F-fetch-fail")
					return true
				}
				return false
			}
		}
	} else {
		sc := genChainScenario(c, true)
		delete(sc.faults, "restart")
		cr = newChainRun(c, sc)
		ns = cr.ns
		summary = sc.String()
		if t.Bool(1, 2) {
			c.FaultConfigured("F-slow")
			ns.Rec = NewRecorder(ns, "h1")
			ns.Rec2 = NewRecorder(ns, "h2")
			ns.Rec.Slow = func(kind string) time.Duration {
				if t.Bool(1, 3) {
					return time.Duration(1+t.Choose(2000)) * time.Millisecond
				}
				return 0
			}
		}
	}
	// when to stop
	var stopAfter time.Duration
	switch t.Choose(7) {
	case 0:
		stopAfter = time.Duration(t.Choose(40)) * time.Millisecond // while dialling / handshaking
	case 1, 2:
		stopAfter = time.Duration(t.Choose(1500)) * time.Millisecond // during sync
	case 3, 4:
		stopAfter = time.Duration(t.Choose(12000)) * time.Millisecond
	case 5:
		stopAfter = time.Duration(55+t.Choose(20)) * time.Second // around the node's own reconnects
	default:
		stopAfter = time.Duration(t.Choose(200)) * time.Second
	}
	// half of the transaction runs: Stop lands while one of the scenario's deliveries is on its way
	// through the node (in the connection's handler, in the tx channel, in the tx processor)
	stopAtDelivery := time.Duration(-1)
	if txsc != nil && len(txsc.txs) > 0 && t.Bool(1, 2) {
		ts := txsc.txs[t.Choose(uint32(len(txsc.txs)))]
		d := ts.deliveries[t.Choose(uint32(len(ts.deliveries)))]
		if t.Bool(1, 2) {
			// prefer a local submission (an application thread inside SendTx / HandleTx)
			for _, x := range txsc.txs {
				for _, xd := range x.deliveries {
					if xd.src == "send" || xd.src == "handle" {
						d = xd
					}
				}
			}
		}

		stopAtDelivery = d.at + time.Duration(t.Choose(uint32((txsc.latBase+txsc.latJitter)/time.Millisecond)+25))*time.Millisecond
		c.Probe("stop_aimed_at_a_delivery")
	}
	c.Res.Summary = fmt.Sprintf("stopAfter=%v stopAtDelivery=%v txs=%v %s", stopAfter, stopAtDelivery, withTxs, summary)
	ns.firstLocator = map[*PeerConn]string{}
	done := false
	simrt.Go("driver", func() {
		defer func() { done = true }()
		if withTxs {
			simrt.GoDaemon("tx-scenario", func() { tr.drive() })
			simrt.Sleep(time.Millisecond)
		} else {
			ns.StartNode()
			simrt.GoDaemon("chain-scenario", func() {
				for _, ev := range cr.sc.events {
					simrt.Sleep(ev.after)
					if ns.stopRequested {
						return
					}
					cr.apply(ev)
				}
			})
		}
		if stopAtDelivery >= 0 {
			for i := 0; tr.origin == 0 && i < 700_000 && c.Res.Inconclusive == ""; i++ {
				simrt.Sleep(time.Millisecond)
			}
			if wait := tr.origin + stopAtDelivery - ns.S.Now(); tr.origin != 0 && wait > 0 {
				simrt.Sleep(wait)
			}
		} else {
			simrt.Sleep(stopAfter)
		}
		for ns.Node == nil {
			simrt.Sleep(time.Millisecond)
		}
		phase := "connecting"
		if st := ns.Node.VerifState(); st.IsReady() {
			phase = "in-sync"
		} else if st.HandshakeComplete() {
			phase = "syncing"
		} else if st.VersionReceived() {
			phase = "handshake"
		}
		if len(ns.Dials) > 1 {
			phase += "/reconnected"
		}
		c.Probe("stop_phase_" + strings.Split(phase, "/")[0])
		ns.stopRequested = true
		requested := ns.S.Now()
		node := ns.Node
		stopRet := time.Duration(-1)
		simrt.Go("node.Stop", func() {
			node.Stop(ns.ctx())
			stopRet = ns.S.Now()
			ns.stopReturnedSeq = ns.S.Seq
			simrt.Eventf("stop-returned", "")
		})
		deadline := requested + stopBound
		for ns.S.Now() < deadline && !(ns.RunDone && stopRet >= 0) {
			simrt.Sleep(50 * time.Millisecond)
		}
		if !(ns.RunDone && stopRet >= 0) {
			c.Violate("stop-hang", phase, "Stop requested at t=%v (%s): after %v Stop returned=%v Run returned=%v; live node tasks: %v", requested, phase, stopBound, stopRet >= 0, ns.RunDone, nodeTasksAlive(ns))
			return
		}
		c.Probe("stopped")
		// let anything still running surface
		simrt.Sleep(30 * time.Second)
		simrt.NoPreempt(func() {
			checkStopped(c, ns, requested, stopRet, strings.Split(phase, "/")[0])
			if alive := nodeTasksAlive(ns); len(alive) > 0 {
				c.Violate("task-leak", strings.Split(phase, "/")[0], "30 simulated seconds after Stop and Run returned these node tasks are still alive: %v", alive)
			}
			checkResume(c, ns)
		})
		c.Res.Nontrivial = true
	})
	ns.S.Run(func() bool { return done })
	if !done && len(c.Res.Violations) == 0 && c.Res.Inconclusive == "" && !ns.S.Zeno && !ns.S.StepCap {
		c.Res.Inconclusive = "driver-stuck"
	}
	if tr != nil {
		tr.done = true
	}
	reportPanics(c, ns)
}

// checkResume: after a lost trusted connection the node dials again, asks for headers from its
// stored tip, and does not announce an already announced (height, hash) again unless a
// reorganisation intervened.
func checkResume(c *Ctx, ns *NodeSim) {
	type key struct {
		h    int
		hash bitcoin.Hash32
	}
	seenAt := map[key]int{}
	var log []Callback
	for _, cb := range ns.Rec.Log {
		if cb.Kind == "headers" && len(cb.Headers.Headers) > 0 {
			log = append(log, cb)
		}
	}
	for i, cb := range log {
		k := key{int(cb.Headers.StartHeight), *cb.Headers.Headers[0].BlockHash()}
		if j, ok := seenAt[k]; ok {
			reorg := false
			for _, mid := range log[j+1 : i] {
				if int(mid.Headers.StartHeight) <= k.h {
					reorg = true
				}
			}
			for _, fe := range ns.ForkEvents {
				// the peer abandoned the block in between (the node may have reverted it without
				// ever announcing a block of the other branch)
				// (its announcement may still have been in flight when the block was first announced)
				if fe.At >= log[j].At-10*time.Second && fe.At <= cb.At && fe.ForkHeight < k.h {
					reorg = true
				}
			}
			if !reorg {
				c.Violate("reannounced", "HandleHeaders", "block %s at height %d was announced to handlers at t=%v and again at t=%v without a reorganisation in between", shortHash(k.hash), k.h, log[j].At, cb.At)
			}
		}
		seenAt[k] = i
	}
	if len(ns.Dials) > 1 {
		c.Probe("reconnected")
	}
	for pc, msg := range ns.firstLocator {
		if msg != "" {
			c.Violate("resume-locator", "first-getheaders", "on %s the first header request did not start at the stored tip: %s", pc, msg)
		}
	}
}

var _ = wire.MsgTx{}

func init() {
	real := []string{"internal/spynode.Node (Run, Stop, phased shutdown, restart loop, untrusted node manager, UntrustedNode)", "internal/handlers", "internal/state", "internal/storage", "pkg/wire framing"}
	Register(&Check{Prop: "C19", Sub: "stop-chain", Weight: 1, Real: real, Stub: txStub,
		Req:  []string{"stopped", "stop_phase_in-sync", "stop_phase_syncing", "stop_phase_connecting"},
		Rule: "a chain scenario with connection, dial and peer faults and (half of the runs) slow handlers, with Stop requested at a tape-chosen instant (while dialling, in the handshake, during header sync or block download, in sync, around the node's own reconnects); every run is non-trivial.",
		Run:  func(c *Ctx) { runC19(c, false) }})
	Register(&Check{Prop: "C19", Sub: "stop-txs", Weight: 1, Real: real, Stub: txStub,
		Req:  []string{"stopped"},
		Rule: "a transaction scenario (untrusted peers, local submissions, blocks, slow handlers) with Stop requested at a tape-chosen instant, including while untrusted connections are being opened and inside handler callbacks; in half of the runs the instant is that of one of the scenario's deliveries plus up to the link latency and 25 ms (Stop while a transaction is in a connection handler, the tx channel or the tx processor); every run is non-trivial.",
		Run:  func(c *Ctx) { runC19(c, true) }})
}
