//go:build go1.26

package verifsim

import (
	"errors"
	"io"
	"net"
	"time"

	"verif.local/simrt"
)

// SimNet is the transport the simulator owns: in-memory net.Conn pairs whose delivery latency,
// fragmentation and failures are decided by the run's tape. TCP semantics are respected: bytes on
// one connection are never lost, duplicated or reordered by the link.

type simAddr string

func (a simAddr) Network() string { return "sim" }
func (a simAddr) String() string  { return string(a) }

type chunk struct {
	at   time.Duration // simulated delivery time
	data []byte
}

// half is one direction of a connection.
type half struct {
	q        []chunk
	lastAt   time.Duration
	closed   bool // writer closed: reader gets EOF after draining
	reset    bool // reader gets an error immediately
	hole     bool // bytes written from now on silently never arrive
	resetAt  time.Duration // >0: the connection is reset at this simulated time (a silent link does not stay up forever)
	cond     simrt.Cond
	consumed uint64
}

// Link decides latency and faults for one connection.
type Link struct {
	BaseLatency time.Duration // >= 1ms
	Jitter      time.Duration
	Frag        bool // deliver writes in tape-sized pieces
	HoleFor     time.Duration // how long a black-holed connection stays up before it is reset
	// Coalesce: a Read returns everything that has arrived (several writes in one read), as a
	// TCP socket does; otherwise a Read returns data of one write only.
	Coalesce bool
	// SlowWrite, if set, returns how long a Write call stays blocked after the bytes have been
	// handed to the link (a loaded sender: the remote side may react before Write returns).
	SlowWrite func(side int) time.Duration
	resetAt     time.Duration
	Tape        *simrt.Tape
	// FaultAtWrite, if set, is asked before every write (n = write index on this conn, side 0 =
	// dialer side): returns "", "close", "reset" or "hole".
	FaultAtWrite func(n int, side int) string
}

func (l *Link) latency() time.Duration {
	d := l.BaseLatency
	if l.Jitter > 0 && l.Tape != nil {
		d += time.Duration(l.Tape.Choose(uint32(l.Jitter/time.Millisecond)+1)) * time.Millisecond
	}
	if d < time.Millisecond {
		d = time.Millisecond
	}
	return d
}

// Conn is one endpoint.
type Conn struct {
	in, out  *half
	peer     *Conn
	link     *Link
	side     int
	local    simAddr
	remote   simAddr
	closedMe bool
	writes   int
	// ReadLog records, per successful Read, the time and the total bytes consumed so far, so
	// that oracles can tell when the node finished reading a given message.
	ReadLog []ReadMark
	// WriteLog, when KeepWrites is set, records every accepted Write (time and bytes) so that
	// oracles can tell what was written even if the remote side never read it.
	KeepWrites bool
	WriteLog   []WriteMark
	// OnRead is called (holding the baton) whenever a Read returns data, with the total number
	// of bytes consumed so far on this endpoint.
	Name string
}

type WriteMark struct {
	At   time.Duration
	Seq  uint64 // scheduler event sequence number at the time of the write
	Data []byte
	Task string
}

type ReadMark struct {
	At  time.Duration
	Off uint64
}

// NewConnPair creates a connected pair (a = dialer side, b = listener side).
func NewConnPair(link *Link, aName, bName string) (*Conn, *Conn) {
	ab, ba := &half{}, &half{}
	a := &Conn{in: ba, out: ab, link: link, side: 0, local: simAddr(aName), remote: simAddr(bName), Name: aName}
	b := &Conn{in: ab, out: ba, link: link, side: 1, local: simAddr(bName), remote: simAddr(aName), Name: bName}
	a.peer, b.peer = b, a
	return a, b
}

var errReset = errors.New("connection reset by peer")
var errClosed = errors.New("use of closed network connection")

func (c *Conn) Read(p []byte) (int, error) {
	if len(p) == 0 {
		return 0, nil
	}
	s := simrt.S
	for {
		if c.closedMe {
			return 0, errClosed
		}
		if c.in.reset {
			return 0, errReset
		}
		now := s.Now()
		if ra := c.link.resetAt; ra > 0 && now >= ra {
			c.in.reset, c.out.reset = true, true
			c.peer.in.cond.Broadcast()
			return 0, errReset
		}
		if len(c.in.q) > 0 && c.in.q[0].at <= now {
			n := 0
			for len(c.in.q) > 0 && c.in.q[0].at <= now && n < len(p) {
				ch := &c.in.q[0]
				k := copy(p[n:], ch.data)
				n += k
				ch.data = ch.data[k:]
				if len(ch.data) == 0 {
					c.in.q = c.in.q[1:]
				}
				if !c.link.Coalesce {
					break // one write, one read (what a test over a pipe sees)
				}
				// like a TCP socket: everything that has arrived is handed over in one read
			}
			c.in.consumed += uint64(n)
			c.ReadLog = append(c.ReadLog, ReadMark{At: now, Off: c.in.consumed})
			return n, nil
		}
		if len(c.in.q) == 0 && c.in.closed {
			return 0, io.EOF
		}
		wait := time.Duration(-1)
		if len(c.in.q) > 0 {
			wait = c.in.q[0].at - now
		}
		if ra := c.link.resetAt; ra > 0 && (wait < 0 || ra-now < wait) {
			wait = ra - now
		}
		c.in.cond.Wait(wait)
	}
}

func (c *Conn) Write(p []byte) (int, error) {
	simrt.Yield()
	if c.closedMe {
		return 0, errClosed
	}
	if ra := c.link.resetAt; ra > 0 && simrt.S.Now() >= ra {
		c.in.reset, c.out.reset = true, true
	}
	if c.out.reset || c.in.reset {
		return 0, errReset
	}
	if c.out.closed {
		return 0, errClosed
	}
	n := c.writes
	c.writes++
	if c.link.FaultAtWrite != nil {
		switch c.link.FaultAtWrite(n, c.side) {
		case "close":
			// the remote party closes: our reads see EOF, this write is lost
			c.peer.closeLocal()
			return len(p), nil
		case "reset":
			c.in.reset, c.out.reset = true, true
			c.in.cond.Broadcast()
			c.out.cond.Broadcast()
			return 0, errReset
		case "hole":
			c.out.hole = true
			if c.link.resetAt == 0 {
				d := c.link.HoleFor
				if d <= 0 {
					d = 3 * time.Minute
				}
				c.link.resetAt = simrt.S.Now() + d
				c.in.cond.Broadcast() // readers re-arm their wait with the reset deadline
				c.out.cond.Broadcast()
			}
		}
	}
	if c.out.hole {
		if c.KeepWrites {
			c.WriteLog = append(c.WriteLog, WriteMark{At: simrt.S.Now(), Seq: simrt.S.Seq, Data: append([]byte(nil), p...)})
		}
		return len(p), nil
	}
	s := simrt.S
	if c.KeepWrites {
		c.WriteLog = append(c.WriteLog, WriteMark{At: s.Now(), Seq: s.Seq, Data: append([]byte(nil), p...), Task: simrt.CurrentSite()})
	}
	at := s.Now() + c.link.latency()
	if at < c.out.lastAt {
		at = c.out.lastAt
	}
	data := append([]byte(nil), p...)
	if c.link.Frag && c.link.Tape != nil && len(data) > 1 {
		// deliver in pieces; pieces keep order and may arrive at later instants
		for len(data) > 0 {
			k := 1 + int(c.link.Tape.Choose(uint32(len(data))))
			if c.link.Tape.Bool(1, 2) {
				k = len(data)
			}
			c.out.q = append(c.out.q, chunk{at: at, data: data[:k]})
			data = data[k:]
			if len(data) > 0 && c.link.Tape.Bool(1, 3) {
				at += time.Duration(1+c.link.Tape.Choose(20)) * time.Millisecond
			}
		}
	} else {
		c.out.q = append(c.out.q, chunk{at: at, data: data})
	}
	c.out.lastAt = at
	c.out.cond.Broadcast()
	if c.link.SlowWrite != nil {
		if d := c.link.SlowWrite(c.side); d > 0 {
			simrt.Sleep(d)
		}
	}
	return len(p), nil
}

func (c *Conn) closeLocal() {
	if c.closedMe {
		return
	}
	c.closedMe = true
	c.out.closed = true
	c.out.cond.Broadcast() // remote reader: EOF after draining
	c.in.cond.Broadcast()  // local reader: errClosed
}

func (c *Conn) Close() error {
	if c.closedMe {
		return errClosed
	}
	c.closeLocal()
	return nil
}

// Consumed is the number of bytes this endpoint has read so far.
func (c *Conn) Consumed() uint64 { return c.in.consumed }

// Pending reports whether bytes are queued towards this endpoint.
func (c *Conn) Pending() bool { return len(c.in.q) > 0 }

func (c *Conn) IsClosed() bool { return c.closedMe }

// RemoteClosed: the other side closed or the connection was reset.
func (c *Conn) RemoteClosed() bool { return c.in.closed || c.in.reset }

func (c *Conn) LocalAddr() net.Addr                { return c.local }
func (c *Conn) RemoteAddr() net.Addr               { return c.remote }
func (c *Conn) SetDeadline(t time.Time) error      { return nil }
func (c *Conn) SetReadDeadline(t time.Time) error  { return nil }
func (c *Conn) SetWriteDeadline(t time.Time) error { return nil }

var _ net.Conn = (*Conn)(nil)

type dialError struct{ msg string }

func (e *dialError) Error() string   { return e.msg }
func (e *dialError) Timeout() bool   { return true }
func (e *dialError) Temporary() bool { return true }
