//go:build go1.26

package verifsim

import (
	"bytes"
	"context"
	"crypto/sha256"
	"fmt"

	"github.com/tokenized/pkg/bitcoin"
	"github.com/tokenized/pkg/wire"
)

// ---- block tree --------------------------------------------------------------------------------

type WBlock struct {
	ID     int
	Parent *WBlock
	Height int
	Header wire.BlockHeader
	Hash   bitcoin.Hash32
	Txs    []*wire.MsgTx // nil for header-only blocks (before the start block)
	// BadBody, when set, is what peers send instead of Txs (does not hash to Header.MerkleRoot).
	BadBody []*wire.MsgTx
}

func (b *WBlock) String() string {
	if b == nil {
		return "nil"
	}
	return fmt.Sprintf("b%d@%d", b.ID, b.Height)
}

type Tree struct {
	Genesis *WBlock
	Blocks  []*WBlock
	ByHash  map[bitcoin.Hash32]*WBlock
	nonce   uint32
}

func dsha(b []byte) bitcoin.Hash32 {
	a := sha256.Sum256(b)
	c := sha256.Sum256(a[:])
	return bitcoin.Hash32(c)
}

// MerkleRootOf is the harness's own merkle computation (independent of wire.MerkleTree).
func MerkleRootOf(txids []bitcoin.Hash32) bitcoin.Hash32 {
	if len(txids) == 0 {
		return bitcoin.Hash32{}
	}
	level := append([]bitcoin.Hash32(nil), txids...)
	for len(level) > 1 {
		if len(level)%2 == 1 {
			level = append(level, level[len(level)-1])
		}
		next := make([]bitcoin.Hash32, 0, len(level)/2)
		for i := 0; i < len(level); i += 2 {
			var buf [64]byte
			copy(buf[:32], level[i][:])
			copy(buf[32:], level[i+1][:])
			next = append(next, dsha(buf[:]))
		}
		level = next
	}
	return level[0]
}

func mainNetGenesisHeader() wire.BlockHeader {
	merkle, _ := bitcoin.NewHash32FromStr("4a5e1e4baab89f3a32518a88c31bc87f618f76673e2cc77ab2127b7afdeda33b")
	return wire.BlockHeader{Version: 1, MerkleRoot: *merkle, Timestamp: 1231006505, Bits: 0x1d00ffff, Nonce: 2083236893}
}

func NewTree() *Tree {
	t := &Tree{ByHash: map[bitcoin.Hash32]*WBlock{}}
	h := mainNetGenesisHeader()
	g := &WBlock{ID: 0, Height: 0, Header: h, Hash: *h.BlockHash()}
	t.Genesis = g
	t.Blocks = append(t.Blocks, g)
	t.ByHash[g.Hash] = g
	return t
}

// AddBlock creates a child of parent with the given transactions (a coinbase is prepended when
// withBody). Header-only blocks get a random-looking merkle root.
func (t *Tree) AddBlock(parent *WBlock, txs []*wire.MsgTx, withBody bool) *WBlock {
	t.nonce++
	id := len(t.Blocks)
	b := &WBlock{ID: id, Parent: parent, Height: parent.Height + 1}
	var root bitcoin.Hash32
	if withBody {
		cb := wire.NewMsgTx(1)
		script := []byte{0x03, byte(id), byte(id >> 8), byte(id >> 16), 0x51}
		cb.AddTxIn(wire.NewTxIn(wire.NewOutPoint(&bitcoin.Hash32{}, wire.MaxPrevOutIndex), script))
		cb.AddTxOut(wire.NewTxOut(5000000000, []byte{0x51}))
		b.Txs = append([]*wire.MsgTx{cb}, txs...)
		ids := make([]bitcoin.Hash32, len(b.Txs))
		for i, tx := range b.Txs {
			ids[i] = *tx.TxHash()
		}
		root = MerkleRootOf(ids)
	} else {
		root = dsha([]byte(fmt.Sprintf("hdr-only-%d", id)))
	}
	b.Header = wire.BlockHeader{Version: 1, PrevBlock: parent.Hash, MerkleRoot: root,
		Timestamp: uint32(1600000000 + 600*b.Height + id), Bits: 0x1d00ffff, Nonce: t.nonce}
	b.Hash = *b.Header.BlockHash()
	t.Blocks = append(t.Blocks, b)
	t.ByHash[b.Hash] = b
	return b
}

// Chain returns the blocks from genesis to tip.
func Chain(tip *WBlock) []*WBlock {
	out := make([]*WBlock, tip.Height+1)
	for b := tip; b != nil; b = b.Parent {
		out[b.Height] = b
	}
	return out
}

func Ancestor(b *WBlock, height int) *WBlock {
	for b != nil && b.Height > height {
		b = b.Parent
	}
	return b
}

func IsAncestor(a, b *WBlock) bool { return Ancestor(b, a.Height) == a }

func ForkPoint(a, b *WBlock) *WBlock {
	for a.Height > b.Height {
		a = a.Parent
	}
	for b.Height > a.Height {
		b = b.Parent
	}
	for a != b {
		a, b = a.Parent, b.Parent
	}
	return a
}

func (b *WBlock) MsgBlock(bad bool) *wire.MsgBlock {
	m := &wire.MsgBlock{Header: b.Header}
	txs := b.Txs
	if bad && b.BadBody != nil {
		txs = b.BadBody
	}
	for _, tx := range txs {
		m.AddTransaction(tx)
	}
	return m
}

// ---- transactions ------------------------------------------------------------------------------

// TxWorld is the small UTXO universe: funded outpoints and the transactions that spend them. It
// also plays the external OutputFetcher / TxFetcher services.
type TxWorld struct {
	Funding map[wire.OutPoint]*wire.TxOut
	Txs     map[bitcoin.Hash32]*wire.MsgTx
	n       int
	FetchDelay func()
	FetchFail  func() bool // the output service fails this request (an outage)
	FetchFailOps func(ops []wire.OutPoint) bool // ... for requests naming these outpoints
	NoFetchTx  bool // the external tx service knows nothing (GetTx must be answered from the node's own store)
}

func NewTxWorld() *TxWorld {
	return &TxWorld{Funding: map[wire.OutPoint]*wire.TxOut{}, Txs: map[bitcoin.Hash32]*wire.MsgTx{}}
}

// Fund creates a spendable outpoint that exists outside every block the node processes.
func (w *TxWorld) Fund(value uint64) wire.OutPoint {
	w.n++
	h := dsha([]byte(fmt.Sprintf("funding-%d", w.n)))
	op := wire.OutPoint{Hash: h, Index: uint32(w.n % 3)}
	w.Funding[op] = wire.NewTxOut(value, append([]byte{0x76, 0xa9, 0x14}, append(h[:20], 0x88, 0xac)...))
	return op
}

func pushData(d []byte) []byte {
	switch {
	case len(d) <= 75:
		return append([]byte{byte(len(d))}, d...)
	case len(d) <= 255:
		return append([]byte{0x4c, byte(len(d))}, d...)
	default:
		return append([]byte{0x4d, byte(len(d)), byte(len(d) >> 8)}, d...)
	}
}

// NewTx builds a transaction spending the given outpoints. When relevantTo is non-nil one output
// is a P2PKH-like script pushing that 20-byte value (so the subscription filter matches).
func (w *TxWorld) NewTx(spend []wire.OutPoint, relevantTo []byte, nOut int, salt int) *wire.MsgTx {
	tx := wire.NewMsgTx(1)
	for _, op := range spend {
		o := op
		sig := dsha([]byte(fmt.Sprintf("sig-%s-%d-%d", o.String(), salt, w.n)))
		tx.AddTxIn(wire.NewTxIn(&o, pushData(sig[:])))
	}
	if nOut < 1 {
		nOut = 1
	}
	for i := 0; i < nOut; i++ {
		w.n++
		var script []byte
		if i == 0 && relevantTo != nil {
			script = append([]byte{0x76, 0xa9}, pushData(relevantTo)...)
			script = append(script, 0x88, 0xac)
		} else {
			h := dsha([]byte(fmt.Sprintf("out-%d-%d", w.n, salt)))
			script = append([]byte{0x76, 0xa9}, pushData(h[:20])...)
			script = append(script, 0x88, 0xac)
		}
		tx.AddTxOut(wire.NewTxOut(uint64(1000+w.n), script))
	}
	w.Txs[*tx.TxHash()] = tx
	return tx
}

// OutputOf returns the output an outpoint refers to in this world (funding or a known tx).
func (w *TxWorld) OutputOf(op wire.OutPoint) *wire.TxOut {
	if o, ok := w.Funding[op]; ok {
		return o
	}
	if tx, ok := w.Txs[op.Hash]; ok && int(op.Index) < len(tx.TxOut) {
		return tx.TxOut[op.Index]
	}
	return nil
}

// GetOutputs implements spynode.OutputFetcher.
func (w *TxWorld) GetOutputs(ctx context.Context, ops []wire.OutPoint) ([]bitcoin.UTXO, error) {
	if w.FetchDelay != nil {
		w.FetchDelay()
	}
	if w.FetchFail != nil && w.FetchFail() {
		return nil, fmt.Errorf("output service unavailable")
	}
	if w.FetchFailOps != nil && w.FetchFailOps(ops) {
		return nil, fmt.Errorf("output service unavailable for these outpoints")
	}
	out := make([]bitcoin.UTXO, 0, len(ops))
	for _, op := range ops {
		o := w.OutputOf(op)
		if o == nil {
			return nil, fmt.Errorf("unknown outpoint %s", op.String())
		}
		out = append(out, bitcoin.UTXO{Hash: op.Hash, Index: op.Index, Value: o.Value, LockingScript: o.LockingScript})
	}
	return out, nil
}

// GetTx implements spynode.TxFetcher.
func (w *TxWorld) GetTx(ctx context.Context, txid bitcoin.Hash32) (*wire.MsgTx, error) {
	if w.NoFetchTx {
		return nil, fmt.Errorf("external tx service: not found")
	}
	if tx, ok := w.Txs[txid]; ok {
		return tx, nil
	}
	return nil, fmt.Errorf("unknown tx")
}

func txBytes(tx *wire.MsgTx) []byte {
	var buf bytes.Buffer
	tx.Serialize(&buf)
	return buf.Bytes()
}

func shortHash(h bitcoin.Hash32) string { return fmt.Sprintf("%x", h[:4]) }
