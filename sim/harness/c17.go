//go:build go1.26

package verifsim

import (
	"fmt"
	"time"

	"github.com/tokenized/pkg/bitcoin"
	"github.com/tokenized/pkg/wire"
	"github.com/tokenized/spynode/pkg/client"
	"verif.local/simrt"
)

// ---- C17: tx notifications in message-id order, exactly once ------------------------------------

type c17run struct {
	c    *Ctx
	cs   *ClientSim
	log  []client.MessagePayload // service log; index i has id i+1
	mode string                  // resume-exact | noisy
	w    *TxWorld
	dropAfter map[int]int // connection index -> close after this many streamed messages (-1 none)
	streamed  map[int]int
}

func (r *c17run) msgID(p client.MessagePayload) uint64 {
	switch m := p.(type) {
	case *client.Tx:
		return m.ID
	case *client.TxUpdate:
		return m.ID
	}
	return 0
}

// stream sends the service log from id `from` on one connection.
func (r *c17run) stream(sc *SvcConn, from uint64) {
	t := r.c.Scen
	send := func(p client.MessagePayload) bool {
		if sc.Dead || sc.C.IsClosed() {
			return false
		}
		if t.Bool(1, 4) {
			simrt.Sleep(time.Duration(t.Choose(300)) * time.Millisecond)
		}
		if lim, ok := r.dropAfter[sc.ID]; ok && lim >= 0 && r.streamed[sc.ID] >= lim {
			r.c.FaultFired("F-close")
			simrt.Eventf("fault", "service closes %s after %d streamed messages", sc, r.streamed[sc.ID])
			sc.C.Close()
			sc.Dead = true
			return false
		}
		r.streamed[sc.ID]++
		return sc.Send(p)
	}
	if from == 0 {
		from = 1
	}
	start := int(from) - 1
	if r.mode == "noisy" && t.Bool(1, 2) && start > 0 {
		// repeat some already delivered messages after the reconnect
		start -= 1 + int(t.Choose(uint32(start)))
		if start < 0 {
			start = 0
		}
		r.c.FaultFired("F-peer-dup")
	}
	for i := start; i < len(r.log); i++ {
		p := r.log[i]
		if r.mode == "noisy" {
			switch t.Choose(10) {
			case 0: // duplicate
				r.c.FaultFired("F-peer-dup")
				if !send(p) {
					return
				}
			case 1: // an id from the future first (out of order)
				if i+2 < len(r.log) {
					r.c.FaultFired("F-peer-reorder")
					if !send(r.log[i+2]) {
						return
					}
				}
			case 2: // an old one again
				if i > 0 {
					if !send(r.log[int(t.Choose(uint32(i)))]) {
						return
					}
				}
			}
		}
		if !send(p) {
			return
		}
		// unnumbered traffic in between
		if t.Bool(1, 6) {
			if !send(&client.InSync{}) {
				return
			}
		}
		if t.Bool(1, 8) {
			h := &wire.BlockHeader{Version: 1, MerkleRoot: dsha([]byte(fmt.Sprint("c17h", i))), Timestamp: uint32(1600000000 + i), Bits: 0x1d00ffff}
			if !send(&client.Headers{StartHeight: uint32(1000 + i), Headers: []*wire.BlockHeader{h}}) {
				return
			}
		}
	}
}

func runC17(c *Ctx) {
	t := c.Scen
	cs := NewClientSim(c, client.ConnectionTypeFull)
	cs.S.PreemptDen = uint32(pickFrom(t, 0, 2, 3, 4, 8, 16))
	maybeStalls(c, cs.S)
	r := &c17run{c: c, cs: cs, w: NewTxWorld(), dropAfter: map[int]int{}, streamed: map[int]int{}}
	r.mode = pickStr(t, "resume-exact", "resume-exact", "noisy")
	n := 3 + int(t.Choose(25))
	for i := 0; i < n; i++ {
		id := uint64(i + 1)
		tx := r.w.NewTx([]wire.OutPoint{r.w.Fund(uint64(100 + i))}, subKey, 1, 900+i)
		if t.Bool(1, 3) && i > 0 {
			r.log = append(r.log, &client.TxUpdate{ID: id, TxID: *tx.TxHash(), State: client.TxState{Safe: true, UnconfirmedDepth: 1}})
		} else {
			outs := []*wire.TxOut{wire.NewTxOut(5, []byte{0x51})}
			r.log = append(r.log, &client.Tx{ID: id, Tx: tx, Outputs: outs, State: client.TxState{UnconfirmedDepth: 1}})
		}
	}
	// connection drops
	drops := int(t.Choose(4))
	for k := 0; k < drops; k++ {
		r.dropAfter[k] = int(t.Choose(uint32(n + 4)))
		c.FaultConfigured("F-close")
	}
	slowWrites := t.Bool(1, 2)
	if slowWrites {
		c.FaultConfigured("F-slow")
	}
	cs.LinkFor = func(nc int) *Link {
		l := &Link{BaseLatency: time.Duration(pickFrom(t, 1, 2, 10, 40)) * time.Millisecond, Jitter: time.Duration(pickFrom(t, 0, 5, 30)) * time.Millisecond, Tape: t, Frag: t.Bool(1, 3), Coalesce: t.Bool(1, 2)}
		if slowWrites {
			l.SlowWrite = func(side int) time.Duration {
				if side == 0 && t.Bool(1, 3) { // the client's writes
					c.FaultFired("F-slow")
					return time.Duration(1+t.Choose(120)) * time.Millisecond
				}
				return 0
			}
		}
		return l
	}
	cs.Svc.OnReady = func(sc *SvcConn, nextID uint64) {
		simrt.GoDaemon("service-stream:"+sc.String(), func() { r.stream(sc, nextID) })
	}
	firstReady := uint64(0)
	if t.Bool(1, 2) {
		firstReady = uint64(1 + t.Choose(uint32(n)))
	}
	readyMode := pickStr(t, "next", "last+1", "rewind")
	slow := t.Bool(1, 4)
	c.Res.Summary = fmt.Sprintf("mode=%s log=%d firstReady=%d readyMode=%s drops=%v slowHandler=%v preempt=1/%d", r.mode, n, firstReady, readyMode, r.dropAfter, slow, cs.S.PreemptDen)
	done := false
	simrt.Go("driver", func() {
		defer func() { done = true }()
		simrt.NoPreempt(func() { // the application is configured before the client runs
			cs.Start()
			cs.H1.ReadyMode = readyMode
			cs.H1.ReadyFirst = firstReady
			if firstReady > 1 {
				cs.H1.last = firstReady - 1
			}
			if readyMode == "rewind" {
				cs.H1.Rewind = func() uint64 { return uint64(t.Choose(4)) }
			}
			if slow {
				cs.H1.Slow = func() time.Duration {
					if t.Bool(1, 3) {
						return time.Duration(t.Choose(400)) * time.Millisecond
					}
					return 0
				}
			}
		})
		// let the streams, drops and reconnects play out
		quiet := 0
		lastLen := -1
		for i := 0; i < 600; i++ {
			simrt.Sleep(500 * time.Millisecond)
			cur := len(cs.H1.Log) + len(cs.Svc.Conns)*1000
			if cur == lastLen {
				quiet++
			} else {
				quiet = 0
				lastLen = cur
			}
			if quiet > 30 { // 15 s without any new delivery or connection
				break
			}
		}
		simrt.NoPreempt(func() { r.evaluate(firstReady) })
		c.Res.Nontrivial = true
		cs.Shutdown(30 * time.Second)
	})
	cs.S.Run(func() bool { return done })
	if !done && len(c.Res.Violations) == 0 && c.Res.Inconclusive == "" && !cs.S.Zeno && !cs.S.StepCap {
		c.Res.Inconclusive = "driver-stuck"
	}
	reportClientPanics(c, cs)
}

func (r *c17run) evaluate(firstReady uint64) {
	c, cs := r.c, r.cs
	r0 := firstReady
	if r0 == 0 {
		r0 = 1
	}
	ids := func(rec *ClientRecorder) []uint64 {
		var out []uint64
		for _, cb := range rec.Log {
			if cb.Kind == "tx" || cb.Kind == "update" {
				out = append(out, cb.ID)
			}
		}
		return out
	}
	d1, d2 := ids(cs.H1), ids(cs.H2)
	if len(cs.Svc.Conns) > 0 {
		c.Probe("connected")
	}
	if len(cs.Svc.Conns) > 1 {
		c.Probe("reconnected")
	}
	if len(cs.H1.readyCalls) == 0 {
		return
	}
	c.Probe("handshake_completed")
	rewind := cs.H1.ReadyMode == "rewind"
	if !rewind {
		for _, d := range [][]uint64{d1, d2} {
			for i, id := range d {
				want := r0 + uint64(i)
				if id != want {
					clause := "out-of-order"
					key := "gap"
					if id < want {
						clause = "repeat"
						key = "already-delivered-id"
					}
					if i == 0 {
						key = "first-after-ready"
					}
					c.Violate(clause, key, "handler received message id %d at position %d; ids must be consecutive from the declared id %d (delivered: %v; Ready calls: %v)", id, i, r0, d, cs.H1.readyCalls)
					break
				}
			}
		}
	}
	if fmt.Sprint(d1) != fmt.Sprint(d2) {
		c.Violate("handlers-differ", "order", "the two handlers received different id sequences: %v vs %v", d1, d2)
	}
	if len(d1) > 0 {
		c.Probe("notification_delivered")
		want := r0 + uint64(len(d1))
		if rewind {
			want = c17wantNext(cs.H1)
		}
		if got := cs.RC.NextMessageID(); got != want {
			c.Violate("next-id", "quiescence", "NextMessageID() = %d, last delivered id + 1 = %d", got, want)
		}
	}
	// inside a callback for id N an application that saves NextMessageID() as its resume point
	// must read more than N, or it processes N again after a reconnect
	for _, cb := range cs.H1.Log {
		if (cb.Kind == "tx" || cb.Kind == "update") && cb.Next != 0 && cb.Next <= cb.ID {
			c.Violate("next-id", "inside-callback", "NextMessageID() read inside the callback for id %d returned %d: declaring ready with it delivers id %d again", cb.ID, cb.Next, cb.ID)
			break
		}
	}
	r.checkOrderModel()
	// content equals the service's log entry with that id
	for _, cb := range cs.H1.Log {
		if cb.Kind != "tx" && cb.Kind != "update" {
			continue
		}
		if cb.ID == 0 || int(cb.ID) > len(r.log) {
			c.Violate("foreign-id", "content", "handler received id %d which the service never sent", cb.ID)
			continue
		}
		var want bitcoin.Hash32
		switch m := r.log[cb.ID-1].(type) {
		case *client.Tx:
			want = *m.Tx.TxHash()
		case *client.TxUpdate:
			want = m.TxID
		}
		if want != cb.TxID {
			c.Violate("wrong-content", "content", "notification id %d carries txid %s, the service's message %d is about %s", cb.ID, shortHash(cb.TxID), cb.ID, shortHash(want))
		}
	}
	// completeness with a service that resumes exactly from the declared id: everything up to
	// the end of the log arrives, provided the last connection was left alone
	last := cs.Svc.Conns[len(cs.Svc.Conns)-1]
	if _, dropped := r.dropAfter[last.ID]; r.mode == "resume-exact" && !dropped && last.ReadyAt >= 0 && !cs.RunDone {
		c.Probe("completeness_judged")
		want := len(r.log) - int(r0) + 1
		if want < 0 {
			want = 0
		}
		if rewind {
			// ids are delivered again after a rewound Ready: complete means the end of the log
			// was reached (the order model above decides what came before)
			if int(last.ReadyID) <= len(r.log) && (len(d1) == 0 || d1[len(d1)-1] != uint64(len(r.log))) {
				c.Violate("missed", "after-rewound-ready", "the service streamed its log (ids 1..%d) from each declared id (Ready calls %v); handlers received %v, the last connection (declared id %d) was left alone", len(r.log), cs.H1.readyCalls, d1, last.ReadyID)
			}
		} else if len(d1) != want {
			key := "fresh-client/declared-id=1"
			if firstReady > 1 {
				key = "fresh-client/declared-id>1"
			}
			if len(cs.Svc.Conns) > 1 {
				key = "after-reconnect"
			}
			c.Violate("missed", key, "the service streamed its log (ids 1..%d) from each declared id (Ready calls %v); handlers received %d notifications (%v), expected ids %d..%d", len(r.log), cs.H1.readyCalls, len(d1), d1, r0, len(r.log))
		}
	}
}

// c17wantNext: the declared id of each Ready that went out, then one more per delivery.
func c17wantNext(h *ClientRecorder) uint64 {
	want, k := uint64(1), 0
	for _, cb := range h.Log {
		switch cb.Kind {
		case "accept":
			if k < len(h.readyCalls) {
				if k < len(h.ReadyErrs) && h.ReadyErrs[k] == nil {
					want = h.readyCalls[k]
				}
				k++
			}
		case "tx", "update":
			want = cb.ID + 1
		}
	}
	return want
}

// checkOrderModel: reference model of the client's filter. Per connection the service's written
// messages (after the Ready it received) are walked with expected = the declared id: a numbered
// message is delivered iff its id is the expected one, InSync and Headers always. What the
// handlers saw must be a prefix of connection 1's sequence, then a prefix of connection 2's, ...
// (a connection may die with written messages unread) - for all four kinds, in the service's order.
func (r *c17run) checkOrderModel() {
	c, cs := r.c, r.cs
	for _, e := range cs.H1.ReadyErrs {
		if e != nil {
			// a Ready whose send failed on the client's side may or may not have reached the
			// service: what the service then streams is not what the client expects
			c.Probe("order_model_skipped_ready_error")
			return
		}
	}
	type ev struct {
		kind string
		id   uint64
	}
	var exp [][]ev
	for _, sc := range cs.Svc.Conns {
		if sc.ReadyAt < 0 {
			continue
		}
		want := sc.ReadyID
		if want == 0 {
			want = 1
		}
		var e []ev
		for _, sent := range sc.SentLog {
			if sent.At < sc.ReadyAt {
				continue
			}
			switch m := sent.Msg.(type) {
			case *client.Tx:
				if m.ID == want {
					e = append(e, ev{"tx", m.ID})
					want++
				}
			case *client.TxUpdate:
				if m.ID == want {
					e = append(e, ev{"update", m.ID})
					want++
				}
			case *client.InSync:
				e = append(e, ev{"insync", 0})
			case *client.Headers:
				e = append(e, ev{"headers", uint64(m.StartHeight)})
			}
		}
		exp = append(exp, e)
	}
	for _, h := range []*ClientRecorder{cs.H1, cs.H2} {
		var got []ev
		for _, cb := range h.Log {
			switch cb.Kind {
			case "tx", "update", "insync", "headers":
				got = append(got, ev{cb.Kind, cb.ID})
			}
		}
		memo := map[[2]int]bool{}
		var fits func(ci, pos int) bool
		fits = func(ci, pos int) bool {
			if pos == len(got) {
				return true
			}
			if ci == len(exp) {
				return false
			}
			k := [2]int{ci, pos}
			if v, ok := memo[k]; ok {
				return v
			}
			res := false
			for n := 0; ; n++ {
				if fits(ci+1, pos+n) {
					res = true
					break
				}
				if n >= len(exp[ci]) || pos+n >= len(got) || exp[ci][n] != got[pos+n] {
					break
				}
			}
			memo[k] = res
			return res
		}
		if !fits(0, 0) {
			key := "single-connection"
			if len(exp) > 1 {
				key = "across-reconnects"
			}
			if cs.H1.ReadyMode == "rewind" {
				key += "/rewound-ready"
			}
			c.Violate("order", key, "handler %s saw %v; the service wrote, per connection and filtered by the declared id, %v (Ready calls %v): not a prefix per connection in the service's order", h.Name, got, exp, cs.H1.readyCalls)
			return
		}
	}
	c.Probe("order_model_judged")
}

func init() {
	Register(&Check{Prop: "C17", Sub: "stream-order", Weight: 1, Real: clientReal, Stub: clientStub,
		Req:  []string{"handshake_completed", "notification_delivered", "reconnected", "completeness_judged"},
		Rule: "a service log of 3-27 numbered Tx/TxUpdate messages streamed from the id the client declares (exactly, or noisily with duplicates, future ids first, old ids again, repeats after reconnect) with unnumbered InSync/Headers in between, 0-3 connection drops at tape-chosen stream positions, the application declaring ready from the handler with NextMessageID(), its own last+1, or an id up to 3 behind it (a lagging durable resume point) (half of the runs a fresh client with a persisted id > 1), optional slow handler. Oracles: consecutive ids from the declared id, a reference model of the id filter over the service's written messages per connection (all four notification kinds, in the service's order, prefix per connection), NextMessageID() at quiescence and as read inside every callback; every run is non-trivial.",
		Run:  runC17})
}
