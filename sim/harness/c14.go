//go:build go1.26

package verifsim

import (
	"fmt"
	"time"

	"github.com/tokenized/pkg/bitcoin"
	"github.com/tokenized/pkg/wire"
	"verif.local/simrt"
)

// ---- C14: announced transactions are requested from one peer at a time, then re-requested -------

type txRequest struct {
	at   time.Duration
	conn *PeerConn
}

func (e *txEval) checkRequests(c *Ctx) {
	tr := e.tr
	ns := tr.ns
	reqs := map[bitcoin.Hash32][]txRequest{}
	for _, ev := range ns.Received {
		gd, ok := ev.Msg.(*wire.MsgGetData)
		if !ok {
			continue
		}
		for _, iv := range gd.InvList {
			if iv.Type == wire.InvTypeTx {
				reqs[iv.Hash] = append(reqs[iv.Hash], txRequest{at: ev.At, conn: ev.Conn})
			}
		}
	}
	// when did the node process a block containing x?
	confirmedAt := map[bitcoin.Hash32]time.Duration{}
	for _, cb := range ns.Rec.Log {
		if cb.Kind != "headers" {
			continue
		}
		for _, h := range cb.Headers.Headers {
			if blk := ns.Tree.ByHash[*h.BlockHash()]; blk != nil {
				for _, tx := range blk.Txs {
					id := *tx.TxHash()
					if _, ok := confirmedAt[id]; !ok {
						confirmedAt[id] = cb.At
					}
				}
			}
		}
	}
	// freshInv: the node consumed an announcement of id on conn in (after, upto]
	freshInv := func(id bitcoin.Hash32, conn *PeerConn, after, upto time.Duration) bool {
		for _, ev := range conn.Sent {
			inv, ok := ev.Msg.(*wire.MsgInv)
			if !ok {
				continue
			}
			for _, iv := range inv.InvList {
				if iv.Type == wire.InvTypeTx && iv.Hash == id {
					if at := consumedAt(conn, ev.EndOff); at > after && at <= upto {
						return true
					}
				}
			}
		}
		return false
	}
	for id, h := range e.hs {
		rs := reqs[id]
		if len(rs) > 0 {
			c.Probe("tx_requested")
		}
		// Once a block containing the transaction has been processed the node keeps no record of
		// it (the mempool entry is dropped), so a request caused by a fresh announcement after
		// that is not judged; a request from stale tracker state is.
		forgotten := func(r txRequest) bool {
			ca, ok := confirmedAt[id]
			return ok && ca < r.at && freshInv(id, r.conn, ca-200*time.Millisecond, r.at)
		}
		for i := 1; i < len(rs); i++ {
			gap := rs[i].at - rs[i-1].at
			// The peer sees the request one link latency after the node decided it; both
			// requests travel over links with latency >= 1ms, so compare with slack for the
			// difference of the two latencies.
			if gap < 3*time.Second-400*time.Millisecond && !forgotten(rs[i]) {
				same := "other-connection"
				if rs[i].conn == rs[i-1].conn {
					same = "same-connection"
				}
				c.Violate("double-request", same, "%s was requested on %s at t=%v and again on %s at t=%v (%v later, inside the three-second window)", e.label(h.spec), rs[i-1].conn, rs[i-1].at, rs[i].conn, rs[i].at, gap)
			}
		}
		for _, r := range rs {
			if h.firstBodyAt >= 0 && r.at > h.firstBodyAt+500*time.Millisecond && !forgotten(r) {
				c.Violate("request-after-body", "arrival="+e.arrivalClass(h), "%s was requested on %s at t=%v although its body had been received at t=%v", e.label(h.spec), r.conn, r.at, h.firstBodyAt)
			}
			if ca, ok := confirmedAt[id]; ok && r.at > ca+500*time.Millisecond && !forgotten(r) {
				c.Violate("request-after-confirm", "tracker", "%s was requested on %s at t=%v although a block containing it had been processed at t=%v", e.label(h.spec), r.conn, r.at, ca)
			}
		}
		// liveness: the asked peer stays silent, another announcer is asked at its next activity
		if len(rs) == 0 {
			continue
		}
		first := rs[0]
		delivered := false
		for _, ev := range ns.SentLog {
			if m, ok := ev.Msg.(*wire.MsgTx); ok && *m.TxHash() == id && ev.Conn == first.conn {
				delivered = true
			}
		}
		if delivered || h.firstBodyAt >= 0 {
			continue
		}
		// another connection announced it inside the window
		for _, ev := range ns.SentLog {
			inv, ok := ev.Msg.(*wire.MsgInv)
			if !ok || ev.Conn == first.conn {
				continue
			}
			has := false
			for _, iv := range inv.InvList {
				if iv.Type == wire.InvTypeTx && iv.Hash == id {
					has = true
				}
			}
			if !has {
				continue
			}
			at := consumedAt(ev.Conn, ev.EndOff)
			// first.at is when the peer read the request; the node decided it up to one
			// latency earlier
			if at < 0 || at <= first.at || at > first.at+3*time.Second-500*time.Millisecond {
				continue
			}
			c2 := ev.Conn
			// c2's next activity after the window
			t2 := time.Duration(-1)
			for _, ev2 := range ns.SentLog {
				if ev2.Conn != c2 {
					continue
				}
				a2 := consumedAt(c2, ev2.EndOff)
				if a2 > first.at+3*time.Second+500*time.Millisecond {
					t2 = a2
					break
				}
			}
			if t2 < 0 {
				continue
			}
			// a request issued meanwhile (e.g. after a fresh announcement) renews the window
			renewed := false
			for _, r := range rs[1:] {
				if r.conn != c2 && r.at < t2+100*time.Millisecond {
					renewed = true
				}
			}
			if renewed {
				continue
			}
			if ca, ok := confirmedAt[id]; ok && ca < t2+6*time.Second {
				continue
			}
			if !tr.readyThroughout(first.at-200*time.Millisecond, t2+5*time.Second) {
				continue
			}
			// the connection must still be alive then
			if c2.Dead && len(ns.ConnEnds) > 0 {
				alive := true
				for _, ce := range ns.ConnEnds {
					if ce.Conn == c2 && ce.At < t2+5*time.Second {
						alive = false
					}
				}
				if !alive {
					continue
				}
			}
			c.Probe("refetch_expected")
			ok2 := false
			for _, r := range rs[1:] {
				if r.conn != first.conn && r.at <= t2+5*time.Second {
					ok2 = true
				}
			}
			if !ok2 {
				kind := "announcer=untrusted"
				if c2.P.Trusted {
					kind = "announcer=trusted"
				}
				c.Violate("no-refetch", kind, "%s was requested on %s at t=%v and never delivered; %s had announced it at t=%v and showed activity at t=%v, but no request followed by t=%v; requests: %s", e.label(h.spec), first.conn, first.at, c2, at, t2, t2+5*time.Second, fmtReqs(rs))
			}
			break
		}
	}
}

func fmtReqs(rs []txRequest) string {
	s := ""
	for _, r := range rs {
		s += fmt.Sprintf("[%s@%v] ", r.conn, r.at)
	}
	return s
}

func init() {
	Register(&Check{Prop: "C14", Sub: "request-window-node", Weight: 1, Real: txReal, Stub: txStub,
		Req:  []string{"in_sync_reached", "tx_requested", "refetch_expected"},
		Rule: "overlapping inventory announcements of the same txids from the trusted and 1-3 untrusted connections, peers that never honour requests, confirming blocks, peer pings as activity, and the schedule drawn from the tape; non-trivial = more than one transaction or a block.",
		Run: func(c *Ctx) {
			ns := NewNodeSim(c)
			ns.Trusted.PingEvery = time.Duration(500+c.Scen.Choose(2500)) * time.Millisecond
			burst := c.Scen.Bool(1, 10)
			o := txGenOpts{conflicts: 0, blocks: true, untrusted: true, maxTxs: 8, silentPeers: true}
			if burst {
				o.maxTxs, o.blocks = 140, false
			}
			sc := genTxScenario(c, ns.TxW, o)
			if sc.untrusted == 0 {
				sc.untrusted = 1 + int(c.Scen.Choose(3))
			}
			if burst && len(sc.txs) > 100 {
				// more than a hundred announcements the first peer never honours: the second
				// announcer's tracker has to re-request them in more than one batch
				if sc.untrusted < 2 {
					sc.untrusted = 2
				}
				c.Probe("burst_over_100")
			} else {
				burst = false
			}
			// mostly announcements, several per transaction, from different peers
			for _, ts := range sc.txs {
				for i := range ts.deliveries {
					if c.Scen.Bool(3, 4) {
						ts.deliveries[i].kind = "inv"
					}
					ts.deliveries[i].src = pickStr(c.Scen, "trusted", "u0", "u1", "u2")
				}
				if c.Scen.Bool(1, 2) {
					// a second announcer inside the request window of the first
					d := ts.deliveries[0]
					d.at += time.Duration(50+c.Scen.Choose(2500)) * time.Millisecond
					d.src = pickStr(c.Scen, "trusted", "u0", "u1", "u2")
					d.kind = "inv"
					ts.deliveries = append(ts.deliveries, d)
				}
				ts.holders = map[string]bool{}
				for _, d := range ts.deliveries {
					if c.Scen.Bool(1, 2) {
						ts.holders[d.src] = true
					}
				}
			}
			if burst {
				for i, ts := range sc.txs {
					ts.deliveries = []txDelivery{
						{at: time.Duration(500+i) * time.Millisecond, src: "u0", kind: "inv"},
						{at: time.Duration(900+i) * time.Millisecond, src: "u1", kind: "inv"},
					}
					ts.holders = map[string]bool{"u1": true}
				}
			}
			// map sources beyond the configured untrusted count back into range
			for _, ts := range sc.txs {
				for i, d := range ts.deliveries {
					if len(d.src) == 2 && d.src[0] == 'u' && int(d.src[1]-'0') >= sc.untrusted {
						ts.deliveries[i].src = fmt.Sprintf("u%d", int(d.src[1]-'0')%sc.untrusted)
					}
				}
			}
			tr := newTxRun(c, sc, ns)
			for k := 0; k < sc.untrusted; k++ { // fixed order: the draws must not depend on map iteration
				if p := ns.Untrusted[untrustedAddr(k)]; p != nil {
					p.PingEvery = time.Duration(500+c.Scen.Choose(2500)) * time.Millisecond
				}
			}
			c.Res.Summary = sc.String()
			if c.Scen.Bool(1, 2) {
				// activity on every connection while a block is being fetched and processed: a ping
				// per millisecond (at most 300) around the time its body reaches the node, so that
				// tracker checks of other connections interleave with the block processor
				c.FaultConfigured("F-ping-storm")
				tr.onMine = func(b int, blk *WBlock) {
					from := 2*sc.latBase - 10*time.Millisecond
					if from < 0 {
						from = 0
					}
					to := 4*sc.latBase + 3*sc.latJitter + 20*time.Millisecond
					step := (to - from) / 300
					if step < time.Millisecond {
						step = time.Millisecond
					}
					peers := []*PeerModel{ns.Trusted}
					for k := 0; k < sc.untrusted; k++ {
						if p := ns.Untrusted[untrustedAddr(k)]; p != nil {
							peers = append(peers, p)
						}
					}
					for _, p := range peers {
						p := p
						simrt.GoDaemon("ping-storm:"+p.Name, func() {
							simrt.Sleep(from)
							for at := from; at <= to; at += step {
								if pc := p.Live(); pc != nil && pc.VerackSeen {
									pc.Send(wire.NewMsgPing(uint64(at)))
								}
								simrt.Sleep(step)
							}
						})
					}
					c.FaultFired("F-ping-storm")
				}
			}
			done := false
			simrt.Go("driver", func() {
				defer func() { done = true; tr.done = true }()
				tr.drive()
				if c.Res.Inconclusive != "" {
					return
				}
				simrt.NoPreempt(func() {
					e := newTxEval(tr)
					e.checkRequests(c)
				})
				c.Res.Nontrivial = len(sc.txs) > 1 || len(sc.blocks) > 0
			})
			ns.S.Run(func() bool { return done })
			if !done && len(c.Res.Violations) == 0 && c.Res.Inconclusive == "" && !ns.S.Zeno && !ns.S.StepCap {
				c.Res.Inconclusive = "driver-stuck"
			}
			reportPanics(c, ns)
		}})
}
