//go:build go1.26

package verifsim

import (
	"bytes"
	"fmt"
	"sort"
	"strings"
	"time"

	"github.com/tokenized/pkg/bitcoin"
	"github.com/tokenized/pkg/wire"
	"github.com/tokenized/spynode/internal/state"
	"verif.local/simrt"
)

// ---- C13: block request window, component level ------------------------------------------------
//
// The real state.State request queue is driven by an operation sequence and compared step by step
// with a reference model written from the property statement: a FIFO of requested blocks (at most
// ten, each possibly holding a delivered body), a FIFO of announced-but-not-yet-requested hashes,
// and a byte counter that is exactly the sum of the sizes of buffered bodies.

type fakeBlock struct {
	hdr  wire.BlockHeader
	size int
}

func (b *fakeBlock) GetHeader() wire.BlockHeader   { return b.hdr }
func (b *fakeBlock) IsMerkleRootValid() bool       { return true }
func (b *fakeBlock) GetTxCount() uint64            { return 0 }
func (b *fakeBlock) GetNextTx() (*wire.MsgTx, error) { return nil, nil }
func (b *fakeBlock) ResetTxs()                     {}
func (b *fakeBlock) SerializeSize() int            { return b.size }

type qEntry struct {
	h    bitcoin.Hash32
	has  bool
	size int
	blk  wire.Block
}

type queueModel struct {
	requested []qEntry
	toRequest []bitcoin.Hash32
	// processing: the block handed out by pop and not yet reported finished (the block processor
	// takes a block out of the window before it adds it to the chain)
	processing *bitcoin.Hash32
	last      bitcoin.Hash32
	limit     int // byte limit above which no new request is made
	window    int
}

func (m *queueModel) buffered() int {
	n := 0
	for _, e := range m.requested {
		if e.has {
			n += e.size
		}
	}
	return n
}

func (m *queueModel) tail() bitcoin.Hash32 {
	if len(m.toRequest) > 0 {
		return m.toRequest[len(m.toRequest)-1]
	}
	if len(m.requested) > 0 {
		return m.requested[len(m.requested)-1].h
	}
	return m.last
}

// announce returns (request now, accepted).
func (m *queueModel) announce(prev, h bitcoin.Hash32) (bool, bool) {
	if m.tail() != prev {
		return false, false
	}
	if len(m.toRequest) > 0 {
		m.toRequest = append(m.toRequest, h)
		return false, true
	}
	if len(m.requested) >= m.window || m.buffered() > m.limit {
		m.toRequest = []bitcoin.Hash32{h}
		return false, true
	}
	m.requested = append(m.requested, qEntry{h: h})
	return true, true
}

func (m *queueModel) deliver(h bitcoin.Hash32, b wire.Block, size int) bool {
	for i := range m.requested {
		if m.requested[i].h == h {
			m.requested[i].has = true
			m.requested[i].size = size
			m.requested[i].blk = b
			return true
		}
	}
	return false
}

func (m *queueModel) pop() wire.Block {
	if len(m.requested) == 0 || !m.requested[0].has {
		return nil
	}
	b := m.requested[0].blk
	m.last = m.requested[0].h
	ph := m.requested[0].h
	m.processing = &ph
	m.requested = m.requested[1:]
	return b
}

func (m *queueModel) next() *bitcoin.Hash32 {
	if len(m.toRequest) == 0 || len(m.requested) >= m.window || m.buffered() > m.limit {
		return nil
	}
	h := m.toRequest[0]
	m.toRequest = m.toRequest[1:]
	m.requested = append(m.requested, qEntry{h: h})
	return &h
}

func (m *queueModel) clearAll() { m.requested, m.toRequest = nil, nil }

func (m *queueModel) clearAfter(h bitcoin.Hash32) {
	for i := range m.requested {
		if m.requested[i].h == h {
			m.requested = m.requested[:i+1]
			m.toRequest = nil
			return
		}
	}
	for i := range m.toRequest {
		if m.toRequest[i] == h {
			m.toRequest = m.toRequest[:i+1]
			return
		}
	}
	if m.processing != nil && *m.processing == h {
		// a fork right above the block being processed: everything requested is beyond it
		m.requested, m.toRequest = nil, nil
	}
}

func hashN(n int) bitcoin.Hash32 {
	var h bitcoin.Hash32
	h[0] = byte(n)
	h[1] = byte(n >> 8)
	h[31] = 0x77
	return h
}

type c13op struct {
	kind string
	a, b int
	size int
}

func (o c13op) String() string {
	switch o.kind {
	case "announce":
		return fmt.Sprintf("announce(prev=h%d,h%d)", o.a, o.b)
	case "deliver":
		return fmt.Sprintf("deliver(h%d,size=%d)", o.a, o.size)
	case "clearAfter":
		return fmt.Sprintf("clearAfter(h%d)", o.a)
	case "setLast":
		return fmt.Sprintf("setLast(h%d)", o.a)
	}
	return o.kind
}

// c13apply runs ops against a fresh State and the model; returns "" or a description of the first
// divergence plus clause and key.
func c13apply(ops []c13op) (clause, key, msg string) {
	ctx := quietCtx()
	st := state.NewState()
	m := &queueModel{limit: 100000000, window: 10}
	st.SetLastHash(hashN(0))
	m.last = hashN(0)
	trace := func(i int) string {
		var sb strings.Builder
		for j := 0; j <= i && j < len(ops); j++ {
			sb.WriteString(ops[j].String())
			sb.WriteString("; ")
		}
		return sb.String()
	}
	for i, o := range ops {
		switch o.kind {
		case "announce":
			p, h := hashN(o.a), hashN(o.b)
			now, err := st.AddBlockRequest(&p, &h)
			mnow, acc := m.announce(p, h)
			if (err == nil) != acc || now != mnow {
				return "queue-mismatch", "op=announce", fmt.Sprintf("AddBlockRequest returned (%v,%v), model (%v,accepted=%v) after %s", now, err, mnow, acc, trace(i))
			}
		case "deliver":
			h := hashN(o.a)
			b := &fakeBlock{size: o.size}
			got := st.AddBlock(&h, b)
			want := m.deliver(h, b, o.size)
			if got != want {
				return "unrequested", "op=deliver", fmt.Sprintf("AddBlock(h%d) returned %v, model %v after %s", o.a, got, want, trace(i))
			}
		case "pop":
			got := st.NextBlock()
			want := m.pop()
			if (got == nil) != (want == nil) || (got != nil && got != want) {
				return "order", "op=pop", fmt.Sprintf("NextBlock returned %v, model %v after %s", got, want, trace(i))
			}
		case "next":
			got, _ := st.GetNextBlockToRequest()
			want := m.next()
			if (got == nil) != (want == nil) || (got != nil && *got != *want) {
				return "window", "op=next", fmt.Sprintf("GetNextBlockToRequest returned %v, model %v after %s", got, want, trace(i))
			}
		case "clearAll":
			st.ClearBlockRequests(ctx)
			m.clearAll()
		case "clearAfter":
			st.ClearBlockRequestsAfter(ctx, hashN(o.a))
			m.clearAfter(hashN(o.a))
		case "setLast":
			st.SetLastHash(hashN(o.a))
			m.last = hashN(o.a)
		case "reset":
			// what Node.Run does before every reconnect: every request is forgotten, nothing is
			// buffered any more
			st.Reset()
			m.clearAll()
			m.processing = nil
		case "finished":
			st.FinishedBlock()
			m.processing = nil
		}
		// state comparison
		req := st.VerifRequested()
		tor := st.VerifToRequest()
		if len(req) > 10 {
			return "window", "op=" + o.kind, fmt.Sprintf("%d requested-unprocessed blocks after %s", len(req), trace(i))
		}
		same := len(req) == len(m.requested) && len(tor) == len(m.toRequest)
		if same {
			for j := range req {
				if req[j].Hash != m.requested[j].h || req[j].HasBlock != m.requested[j].has {
					same = false
				}
			}
			for j := range tor {
				if tor[j] != m.toRequest[j] {
					same = false
				}
			}
		}
		if !same {
			return "queue-mismatch", "op=" + o.kind, fmt.Sprintf("queue differs from model: requested=%v toRequest=%v, model requested=%v toRequest=%v after %s", fmtReq(req), fmtHashes(tor), fmtModelReq(m.requested), fmtHashes(m.toRequest), trace(i))
		}
		if m.buffered() == 0 && st.VerifPendingBlockSize() != 0 {
			cls := "buffered=0"
			return "byte-counter-nonzero", "op=" + o.kind + "," + cls, fmt.Sprintf("no block is buffered but the byte counter is %d after %s", st.VerifPendingBlockSize(), trace(i))
		}
		if hl := st.LastHash(); hl != m.tail() {
			return "queue-mismatch", "op=" + o.kind + ",tail", fmt.Sprintf("LastHash %x.. model %x.. after %s", hl[:2], func() []byte { t := m.tail(); return t[:2] }(), trace(i))
		}
	}
	return "", "", ""
}

func fmtReq(r []state.VerifRequest) string {
	var sb strings.Builder
	for _, e := range r {
		fmt.Fprintf(&sb, "h%d", int(e.Hash[0])|int(e.Hash[1])<<8)
		if e.HasBlock {
			fmt.Fprintf(&sb, "[%d]", e.Size)
		}
		sb.WriteString(" ")
	}
	return sb.String()
}

func fmtModelReq(r []qEntry) string {
	var sb strings.Builder
	for _, e := range r {
		fmt.Fprintf(&sb, "h%d", int(e.h[0])|int(e.h[1])<<8)
		if e.has {
			fmt.Fprintf(&sb, "[%d]", e.size)
		}
		sb.WriteString(" ")
	}
	return sb.String()
}

func fmtHashes(r []bitcoin.Hash32) string {
	var sb strings.Builder
	for _, e := range r {
		fmt.Fprintf(&sb, "h%d ", int(e[0])|int(e[1])<<8)
	}
	return sb.String()
}

func c13genOp(c *Ctx, universe int, nextFresh *int) c13op {
	t := c.Scen
	switch t.Choose(10) {
	case 0, 1, 2:
		// announce: mostly linked to the tail of what was announced (chain order), sometimes not
		prev := *nextFresh - 1
		h := *nextFresh
		if t.Bool(1, 5) {
			prev = t.Range(0, universe)
		}
		if t.Bool(1, 6) {
			h = t.Range(1, universe)
		} else {
			*nextFresh++
		}
		return c13op{kind: "announce", a: prev, b: h}
	case 3, 4:
		size := 100 + int(t.Choose(900))
		if t.Bool(1, 6) {
			size = 60000000 // big enough for two to exceed the byte limit
		}
		return c13op{kind: "deliver", a: t.Range(0, *nextFresh), size: size}
	case 5, 6:
		return c13op{kind: "pop"}
	case 7:
		return c13op{kind: "next"}
	case 8:
		if t.Bool(1, 3) {
			return c13op{kind: "clearAll"}
		}
		return c13op{kind: "clearAfter", a: t.Range(0, *nextFresh)}
	default:
		if t.Bool(1, 3) {
			return c13op{kind: "setLast", a: t.Range(0, *nextFresh)}
		}
		if t.Bool(1, 4) {
			return c13op{kind: "reset"}
		}
		if t.Bool(1, 2) {
			return c13op{kind: "finished"}
		}
		return c13op{kind: "next"}
	}
}

func init() {
	Register(&Check{Prop: "C13", Sub: "queue-random", Weight: 3,
		Real: []string{"internal/state.State request queue (AddBlockRequest, AddBlock, NextBlock, GetNextBlockToRequest, ClearBlockRequests, ClearBlockRequestsAfter)"},
		Stub: []string{"block bodies (fake wire.Block with chosen SerializeSize)"},
		Run: func(c *Ctx) {
			cases := 200
			if c.Tier == "thorough" {
				cases = 1000
			}
			for k := 0; k < cases; k++ {
				n := c.Scen.Range(3, 60)
				fresh := 1
				ops := make([]c13op, 0, n)
				for i := 0; i < n; i++ {
					ops = append(ops, c13genOp(c, 14, &fresh))
				}
				c.NoteCase(len(ops) >= 3, fmt.Sprint(ops))
				if cl, key, msg := c13apply(ops); cl != "" {
					c.Violate(cl, key, "%s", msg)
					c.Res.Summary = msg
					return
				}
				if k == 0 {
					c.Res.Summary = fmt.Sprint(ops)
				}
			}
			c.Res.Nontrivial = true
		}})
	Register(&Check{Prop: "C13", Sub: "wire-window", Weight: 3, Real: txReal, Stub: txStub,
		Req:  []string{"block_request_seen", "window_full", "branch_switch_seen", "unsolicited_sent", "converged"},
		Rule: "the C01 chain scenarios (extend / reorg / flip-flop scripts, long initial chains, duplicated, reordered and stalled block deliveries, connection close/reset, restarts) plus unsolicited block bodies (later best-chain blocks, abandoned-branch blocks, old blocks again); judged from the getdata(block) history per connection and the HandleHeaders history: chain order, no skipping, new branch requested from the fork point, no repeat without an abandoned branch, at most ten requested and unannounced blocks (+1 being processed), nothing announced that was never requested.",
		Run:  runC13Wire})
	Register(&Check{Prop: "C13", Sub: "queue-exhaustive", Once: true,
		Real: []string{"internal/state.State request queue"},
		Run: func(c *Ctx) {
			// all sequences of length <= depth over a small alphabet on a 5-hash universe
			depth := 5
			if c.Tier == "thorough" {
				depth = 6
			}
			var alphabet []c13op
			for _, pr := range [][2]int{{0, 1}, {1, 2}, {2, 3}, {1, 4}, {0, 4}} {
				alphabet = append(alphabet, c13op{kind: "announce", a: pr[0], b: pr[1]})
			}
			for _, h := range []int{1, 2, 4} {
				alphabet = append(alphabet, c13op{kind: "deliver", a: h, size: 500})
			}
			alphabet = append(alphabet, c13op{kind: "pop"}, c13op{kind: "next"}, c13op{kind: "clearAll"},
				c13op{kind: "clearAfter", a: 1}, c13op{kind: "finished"})
			seq := make([]c13op, 0, depth)
			var rec func(d int) bool
			rec = func(d int) bool {
				if len(seq) > 0 {
					c.NoteCase(len(seq) >= 3, fmt.Sprint(seq))
					if cl, key, msg := c13apply(seq); cl != "" {
						c.Violate(cl, key, "%s", msg)
						c.Res.Summary = msg
						return false
					}
				}
				if d == depth {
					return true
				}
				for _, o := range alphabet {
					seq = append(seq, o)
					ok := rec(d + 1)
					seq = seq[:len(seq)-1]
					if !ok {
						return false
					}
				}
				return true
			}
			rec(0)
			c.Res.Exhaustive = true
			c.Res.Nontrivial = true
			if c.Res.Summary == "" {
				c.Res.Summary = fmt.Sprintf("all %d sequences up to length %d over %d operations", c.Res.Cases, depth, len(alphabet))
			}
		}})
}

// ---- wire-level window oracle in whole-node runs -------------------------------------------------
//
// Observed: getdata(block) messages as the node wrote them on each trusted connection (parsed from
// the node-side write log: exact time and order, independent of whether the peer ever read them)
// and HandleHeaders callbacks (a block is "processed" once announced to handlers).

type c13req struct {
	at   time.Duration
	seq  uint64
	conn *PeerConn
	b    *WBlock
}

func runC13Wire(c *Ctx) {
	t := c.Scen
	sc := genChainScenario(c, true)
	// long chains so that the ten-block window is the binding constraint
	if t.Bool(2, 3) {
		sc.initLen = pickFrom(t, 14, 23, 35, 48)
	}
	for _, k := range []string{"hole", "dial"} { // long outages add nothing here
		delete(sc.faults, k)
	}
	if sc.initLen >= 23 && t.Bool(1, 2) {
		// a fork among announced but not yet requested blocks: reorganise during the catch-up
		ev := chainEvent{kind: "reorg", after: time.Duration(t.Choose(2500)) * time.Millisecond}
		ev.d = 1 + int(t.Choose(uint32(sc.initLen-12)))
		ev.k = ev.d + pickFrom(t, 1, 1, 2, 5)
		sc.events = append([]chainEvent{ev}, sc.events...)
	}
	if t.Bool(1, 2) {
		// once in sync (the peer announces by headers then): a burst of more blocks than the window
		// holds, and a fork among the ones still waiting to be requested right behind it
		k := 12 + int(t.Choose(10))
		burst := chainEvent{kind: "extend", k: k, after: time.Duration(3000+t.Choose(9000)) * time.Millisecond}
		fork := chainEvent{kind: "reorg", after: time.Duration(t.Choose(uint32(pickFrom(t, 5, 50, 400)))) * time.Millisecond}
		fork.d = 1 + int(t.Choose(uint32(k-10)))
		fork.k = fork.d + pickFrom(t, 1, 1, 2, 4)
		at := int(t.Choose(uint32(len(sc.events) + 1)))
		evs := append([]chainEvent{}, sc.events[:at]...)
		evs = append(evs, burst, fork)
		sc.events = append(evs, sc.events[at:]...)
	}
	cr := newChainRun(c, sc)
	ns := cr.ns
	ns.KeepNodeWrites = true
	if t.Bool(1, 2) {
		ns.Trusted.Unsolicited, ns.Trusted.UnsolicitedBudget = 150, 1+int(t.Choose(4))
		c.FaultConfigured("F-peer-unsolicited-block")
	}
	c.Res.Summary = sc.String()
	done := false
	simrt.Go("driver", func() {
		defer func() { done = true }()
		ns.StartNode()
		restartAt := -1
		if sc.faults["restart"] && len(sc.events) > 0 {
			restartAt = int(t.Choose(uint32(len(sc.events) + 1)))
		}
		for i, ev := range sc.events {
			if i == restartAt {
				cr.restart()
			}
			simrt.Sleep(ev.after)
			cr.apply(ev)
		}
		ok, _ := cr.settle() // convergence itself is C01's business
		if ok {
			c.Probe("converged")
		}
		simrt.NoPreempt(func() { c13judgeWire(c, ns) })
		c.Res.Nontrivial = true
	})
	ns.S.Run(func() bool { return done })
	if !done && len(c.Res.Violations) == 0 && c.Res.Inconclusive == "" && !ns.S.Zeno && !ns.S.StepCap {
		c.Res.Inconclusive = "driver-stuck"
	}
	reportPanics(c, ns)
}

func c13judgeWire(c *Ctx, ns *NodeSim) {
	tree := ns.Tree
	// merge requests and announcements into one sequence ordered by event sequence number
	type item struct {
		seq  uint64
		at   time.Duration
		req  *c13req
		ann  []*WBlock
	}
	var items []item
	// requests as the node wrote them (exact time and order, whether or not the peer read them)
	for _, pc := range ns.Trusted.Conns {
		var stream []byte
		type mark struct {
			end int
			w   WriteMark
		}
		var marks []mark
		for _, w := range pc.NodeSide.WriteLog {
			stream = append(stream, w.Data...)
			marks = append(marks, mark{len(stream), w})
		}
		r := bytes.NewReader(stream)
		mi := 0
		for r.Len() > 0 {
			_, msg, _, err := wire.ReadMessageN(r, wire.ProtocolVersion, simNet)
			if err != nil {
				break // a write cut short by a connection fault
			}
			off := len(stream) - r.Len()
			for mi < len(marks)-1 && marks[mi].end < off {
				mi++
			}
			gd, ok := msg.(*wire.MsgGetData)
			if !ok {
				continue
			}
			w := marks[mi].w
			for _, iv := range gd.InvList {
				if iv.Type != wire.InvTypeBlock {
					continue
				}
				b := tree.ByHash[iv.Hash]
				if b == nil {
					c.Violate("unknown-request", "getdata", "the node requested block %s which the peer never announced", shortHash(iv.Hash))
					continue
				}
				items = append(items, item{seq: w.Seq, at: w.At, req: &c13req{at: w.At, seq: w.Seq, conn: pc, b: b}})
			}
		}
	}
	for _, cb := range ns.Rec.Log {
		if cb.Kind != "headers" || cb.Headers == nil {
			continue
		}
		var bs []*WBlock
		for _, h := range cb.Headers.Headers {
			if b := tree.ByHash[*h.BlockHash()]; b != nil {
				bs = append(bs, b)
			}
		}
		items = append(items, item{seq: cb.Seq, at: cb.At, ann: bs})
	}
	// order by event sequence number; with equal numbers the callback came first (the recorder
	// emits an event before it stores the callback, a write emits none)
	sort.SliceStable(items, func(i, j int) bool {
		if items[i].seq != items[j].seq {
			return items[i].seq < items[j].seq
		}
		return items[i].ann != nil && items[j].ann == nil
	})
	// headers messages as the node read them (time = last byte consumed)
	type hdrEv struct {
		at     time.Duration // when the node had read the whole message
		conn   *PeerConn
		blocks []*WBlock
	}
	var hevs []hdrEv
	for _, pc := range ns.Trusted.Conns {
		for _, ev := range pc.Sent {
			hm, ok := ev.Msg.(*wire.MsgHeaders)
			if !ok || len(hm.Headers) == 0 {
				continue
			}
			at := consumedAt(pc, ev.EndOff)
			if at < 0 {
				continue
			}
			he := hdrEv{at: at, conn: pc}
			for _, h := range hm.Headers {
				if b := tree.ByHash[*h.BlockHash()]; b != nil {
					he.blocks = append(he.blocks, b)
				}
			}
			if len(he.blocks) > 0 {
				hevs = append(hevs, he)
			}
		}
	}
	sort.SliceStable(hevs, func(i, j int) bool { return hevs[i].at < hevs[j].at })
	startH := 0
	if ns.Start != nil {
		startH = ns.Start.Height
	}
	announced := map[*WBlock]bool{}   // ever announced to handlers so far
	everRequested := map[*WBlock]bool{}
	var curConn *PeerConn
	var win []*WBlock                 // requested on curConn, neither announced since nor abandoned
	var prev *WBlock                  // previous request on curConn
	reqOnConn := map[*WBlock]int{}    // requests per block on curConn since the last branch switch away from it
	lastReqAt := map[*WBlock]time.Duration{}
	maxWin := 0
	for itIdx, it := range items {
		if it.ann != nil {
			for _, b := range it.ann {
				if b.Height >= startH && b.Txs != nil && !everRequested[b] {
					key := "never-requested"
					if ns.Trusted.UnsolicitedSent[b.Hash] {
						key = "unsolicited-body-accepted"
					}
					c.Violate("unrequested-processed", key, "block %s was announced to handlers at t=%v but the node had not written a getdata for it", b, it.at)
				}
				announced[b] = true
				for i, w := range win {
					if w == b {
						win = append(win[:i:i], win[i+1:]...)
						break
					}
				}
			}
			continue
		}
		r := it.req
		b := r.b
		if r.conn != curConn {
			curConn, win, prev = r.conn, nil, nil
			reqOnConn = map[*WBlock]int{}
			lastReqAt = map[*WBlock]time.Duration{}
		}
		c.Probe("block_request_seen")
		held := func(x *WBlock) bool { return x == nil || announced[x] || x.Height < startH || x == ns.Start }
		switch {
		case prev == nil:
			if !held(b.Parent) {
				c.Violate("order", "first-request-of-connection", "first block request on %s is %s whose parent %s the node does not hold (never announced to handlers, not below the start block)", r.conn, b, b.Parent)
			}
		case b.Parent == prev:
			// next in chain order
		case b == prev || IsAncestor(b, prev):
			// going back on the same branch: judged as a repeat below
		case IsAncestor(prev, b):
			// The headers handler and the block processor each write their own getdata: the
			// handler marks its blocks as requested first and writes one getdata for all of them
			// at the end of the headers message, the block processor writes one the moment a slot
			// is free. The queue's decisions are in chain order; the two threads' writes may land
			// on the wire the other way round, milliseconds apart. A block in between counts as
			// skipped only if this connection neither carried its request before nor carries it
			// within a second.
			missing := 0
			for x := b.Parent; x != nil && x != prev; x = x.Parent {
				if reqOnConn[x] > 0 {
					continue
				}
				soon := false
				for j := itIdx + 1; j < len(items); j++ {
					o := items[j]
					if o.req == nil {
						continue
					}
					if o.req.at-r.at > time.Second {
						break
					}
					if o.req.conn == r.conn && o.req.b == x {
						soon = true
						break
					}
				}
				if !soon {
					missing++
				}
			}
			if missing > 0 {
				c.Violate("order", "skipped", "block request for %s follows the request for %s on %s: %d block(s) in between were not requested before or within a second", b, prev, r.conn, missing)
			} else {
				c.Probe("request_writes_of_two_threads_inverted")
			}
		default:
			// another branch: requests beyond the fork point are discarded, the new branch is
			// requested from the first block after the fork
			c.Probe("branch_switch_seen")
			f := ForkPoint(b, prev)
			if at, ok := lastReqAt[b.Parent]; ok && b.Parent != f && !held(b.Parent) && r.at-at <= time.Second {
				// a straggler: the block processor had taken this block from the to-request queue
				// just before the headers handler discarded that branch; its getdata was already on
				// its way to the connection. It continues the branch requested a moment ago and does
				// not change which branch the node is on.
				c.Probe("straggler_request_of_discarded_branch")
				continue
			}
			if b.Parent != f && !held(b.Parent) {
				var sb strings.Builder
				for _, x := range items {
					if x.req != nil && x.req.conn == r.conn && x.seq <= it.seq {
						fmt.Fprintf(&sb, " %s@%v", x.req.b, x.req.at)
					}
				}
				c.Violate("order", "new-branch-not-from-fork", "after a fork at %s (previous request %s) the first request on the new branch is %s, whose parent %s is neither the fork point nor held; requests on %s so far:%s", f, prev, b, b.Parent, r.conn, sb.String())
			}
			keep := win[:0:0]
			for _, w := range win {
				if IsAncestor(w, b) {
					keep = append(keep, w)
				}
			}
			win = keep
			for x := range reqOnConn {
				if !IsAncestor(x, b) {
					delete(reqOnConn, x) // its branch was abandoned: it may be requested again
				}
			}
		}
		if at, again := lastReqAt[b]; again && reqOnConn[b] > 0 {
			// abandoned in between without any request on the other branch having been written:
			// the node read headers that put the peer's chain on a branch without this block
			for _, he := range hevs {
				if he.conn != r.conn || he.at < at || he.at > r.at {
					continue
				}
				l := he.blocks[len(he.blocks)-1]
				if !IsAncestor(b, l) && !IsAncestor(l, b) {
					reqOnConn[b] = 0
					c.Probe("rerequest_after_abandoned_branch")
					break
				}
			}
		}
		lastReqAt[b] = r.at
		reqOnConn[b]++
		if reqOnConn[b] > 1 {
			c.Violate("repeat", "same-connection", "block %s was requested %d times on %s without its branch having been abandoned in between", b, reqOnConn[b], r.conn)
		}
		everRequested[b] = true
		already := false
		for _, w := range win {
			if w == b {
				already = true
			}
		}
		if !already && !announced[b] {
			win = append(win, b)
		}
		if len(win) > maxWin {
			maxWin = len(win)
		}
		// ten in the window plus the one block that has left the window and is being processed
		if len(win) > 11 {
			c.Violate("window", "more-than-ten-outstanding", "%d blocks requested on %s and not yet announced to handlers at t=%v (latest %s); the window is ten", len(win), r.conn, r.at, b)
			win = win[1:]
		}
		prev = b
	}
	// --- forks: requests beyond the fork point are discarded, the new branch is requested --------
	const grace = time.Second
	for _, it := range items {
		if it.req == nil {
			continue
		}
		r := it.req
		// what the node had been told by then
		known := map[*WBlock]bool{}
		var last *WBlock
		var lastAt time.Duration
		for _, he := range hevs {
			if he.at > r.at {
				break
			}
			for _, b := range he.blocks {
				known[b] = true
			}
			if he.conn == r.conn {
				last, lastAt = he.blocks[len(he.blocks)-1], he.at
			}
		}
		// the latest headers message read on this connection decides which branch the peer is on;
		// it must have been read a while ago for the request to be blamed
		if last == nil || lastAt > r.at-grace || IsAncestor(r.b, last) || IsAncestor(last, r.b) {
			continue
		}
		f := ForkPoint(last, r.b)
		connected := true
		for x := last; x != f; x = x.Parent {
			if !known[x] {
				connected = false
			}
		}
		if connected {
			c.Probe("fork_during_download")
			c.Violate("fork", "request-beyond-fork-not-discarded", "getdata for %s written on %s at t=%v although the node had read, more than %v earlier, headers putting the peer's chain on the branch %s..%s forking at %s", r.b, r.conn, r.at, grace, f, last, f)
			break
		}
	}
	// the new branch is requested: if the node ended below the peer's tip, the first block it lacks
	// must at least have been asked for once the node knew its header (what happens to the request
	// afterwards is C01's concern)
	if !ns.RunDone && ns.Start != nil {
		best := ns.Trusted.Best
		lh := ns.Node.VerifBlocks().LastHeight()
		var lacking *WBlock
		for x := best; x != nil && x.Height >= ns.Start.Height; x = x.Parent {
			hh, err := ns.Node.VerifBlocks().Hash(quietCtx(), x.Height)
			if x.Height > lh || err != nil || hh == nil || *hh != x.Hash {
				lacking = x
			} else {
				break
			}
		}
		if lacking != nil {
			var knownSince time.Duration = -1
			for _, he := range hevs {
				for _, b := range he.blocks {
					if b == lacking && knownSince < 0 {
						knownSince = he.at
					}
				}
			}
			asked := false
			for _, it := range items {
				if it.req != nil && it.req.b == lacking && it.req.at >= knownSince {
					asked = true
				}
			}
			if knownSince >= 0 && !asked && ns.S.Now()-knownSince > 2*time.Minute && len(ns.Trusted.Conns) > 0 && consumedAt(ns.Trusted.Conns[len(ns.Trusted.Conns)-1], 1) >= 0 {
				c.Violate("fork", "new-branch-not-requested", "the node read the header of %s at t=%v (peer's best chain, tip %s) and holds its parent's branch up to height %d, but never wrote a getdata for it in the following %v", lacking, knownSince, best, lh, ns.S.Now()-knownSince)
			}
		}
	}
	if maxWin >= 10 {
		c.Probe("window_full")
	}
	if len(ns.Trusted.UnsolicitedSent) > 0 {
		c.Probe("unsolicited_sent")
	}
}
