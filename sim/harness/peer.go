//go:build go1.26

package verifsim

import (
	"bytes"
	"fmt"
	"time"

	"github.com/tokenized/pkg/bitcoin"
	"github.com/tokenized/pkg/wire"
	"verif.local/simrt"
)

const simNet = wire.BitcoinNet(bitcoin.MainNet)

// WireEvent is one message observed on a simulated connection.
type WireEvent struct {
	At      time.Duration
	Seq     uint64
	Conn    *PeerConn
	FromSUT bool // true: written by spynode and consumed by the peer model
	Msg     wire.Message
	EndOff  uint64 // for peer->SUT messages: stream offset after this message
}

// PeerModel is a scripted Bitcoin peer: honest by default, with behaviour knobs for faults.
type PeerModel struct {
	sim        *NodeSim
	Name       string
	Trusted    bool
	Best       *WBlock
	MaxHeaders int // cap of a getheaders response (Bitcoin: 2000; fewer means "that is all I have")
	AnnounceChunk int // headers per unsolicited announcement message
	PingEvery  time.Duration
	Mempool    []*wire.MsgTx
	Conns      []*PeerConn
	Silent     bool // never answers anything after the handshake (untrusted variants)
	NoHandshake bool
	ServeTx    func(txid bitcoin.Hash32) *wire.MsgTx // nil: serve from Mempool / world
	// fault knobs (rates are x/1000 per opportunity)
	DupHeaders   uint32
	DupBudget    int // total number of duplicated messages per run (a rate alone lets the node's poll-per-message habit amplify without bound)
	DupBlock     uint32
	ReorderBlock uint32
	Reannounce   uint32
	StallBudget  int    // how many requests may be ignored in total
	StallRate    uint32 // x/1000
	BadBody      map[bitcoin.Hash32]bool
	// Unsolicited: x/1000 chance per served block request to also push a block body nobody asked
	// for (a later block of the best chain, a block of an abandoned branch, or an old one again)
	Unsolicited       uint32
	UnsolicitedBudget int
	UnsolicitedSent   map[bitcoin.Hash32]bool
	Hook         func(pc *PeerConn, msg wire.Message) bool // returns true if it handled the message
	tape         *simrt.Tape
}

type PeerConn struct {
	P           *PeerModel
	C           *Conn // peer-side endpoint
	NodeSide    *Conn
	ID          int
	SendHeaders bool
	VersionSeen bool
	VerackSeen  bool
	LastCommon  *WBlock
	Sent        []WireEvent // peer -> SUT, with end offsets
	sentOff     uint64
	Dead        bool
	OpenedAt    time.Duration
}

func (pc *PeerConn) String() string { return fmt.Sprintf("%s#%d", pc.P.Name, pc.ID) }

// Send writes one message as a single stream write and records it.
func (pc *PeerConn) Send(msg wire.Message) bool {
	if pc.Dead || pc.C.IsClosed() {
		return false
	}
	var buf bytes.Buffer
	if _, err := wire.WriteMessageN(&buf, msg, wire.ProtocolVersion, simNet); err != nil {
		panic(fmt.Sprintf("peer model: encode %s: %v", msg.Command(), err))
	}
	if hm, ok := msg.(*wire.MsgHeaders); ok && cap(hm.Headers) > len(hm.Headers)+8 {
		// wire.NewMsgHeaders reserves room for 2000 headers (16 KB); the message is kept in the
		// history of sent messages, and a node that polls for headers in a tight loop (it does
		// while a requested block is outstanding) collects gigabytes of them in one run
		hm.Headers = append(make([]*wire.BlockHeader, 0, len(hm.Headers)), hm.Headers...)
	}
	// bookkeeping and write are one step for the scheduler: with several model tasks sending on
	// one connection (reader, pinger, scenario) the recorded offsets must be the order of the bytes
	// on the stream
	ok := true
	simrt.NoPreempt(func() {
		pc.sentOff += uint64(buf.Len())
		ev := WireEvent{At: simrt.S.Now(), Seq: simrt.S.Seq, Conn: pc, Msg: msg, EndOff: pc.sentOff}
		pc.Sent = append(pc.Sent, ev)
		pc.P.sim.noteSent(ev)
		if _, err := pc.C.Write(buf.Bytes()); err != nil {
			pc.Dead = true
			ok = false
		}
	})
	return ok
}

// LastConsumedHeaders returns the last non-empty headers message whose bytes the node has
// completely read from this connection.
func (pc *PeerConn) LastConsumedHeaders() *wire.MsgHeaders {
	consumed := pc.NodeSide.Consumed()
	var last *wire.MsgHeaders
	for _, ev := range pc.Sent {
		if ev.EndOff > consumed {
			break
		}
		if h, ok := ev.Msg.(*wire.MsgHeaders); ok && len(h.Headers) > 0 {
			last = h
		}
	}
	return last
}

// dup reports whether a message should be sent twice (bounded per run).
func (p *PeerModel) dup(perMille uint32) bool {
	if p.DupBudget <= 0 || !p.chance(perMille) {
		return false
	}
	p.DupBudget--
	p.sim.c.FaultFired("F-peer-dup")
	return true
}

func (p *PeerModel) chance(perMille uint32) bool {
	return perMille > 0 && p.tape.Choose(1000) >= 1000-perMille
}

// accept is called by the dial hook: starts the connection's reader and pinger tasks.
func (p *PeerModel) accept(peerSide, nodeSide *Conn) *PeerConn {
	pc := &PeerConn{P: p, C: peerSide, NodeSide: nodeSide, ID: len(p.Conns), LastCommon: p.sim.Tree.Genesis,
		OpenedAt: simrt.S.Now()}
	p.Conns = append(p.Conns, pc)
	simrt.GoDaemon("peer-reader:"+pc.String(), func() { p.reader(pc) })
	if p.PingEvery > 0 {
		simrt.GoDaemon("peer-pinger:"+pc.String(), func() {
			n := uint64(0)
			for !pc.Dead && !pc.C.IsClosed() {
				simrt.Sleep(p.PingEvery)
				if pc.VerackSeen {
					n++
					pc.Send(wire.NewMsgPing(n))
				}
			}
		})
	}
	return pc
}

func (p *PeerModel) reader(pc *PeerConn) {
	for {
		_, msg, _, err := wire.ReadMessageN(pc.C, wire.ProtocolVersion, simNet)
		if err != nil {
			pc.Dead = true
			pc.C.Close()
			p.sim.noteConnEnd(pc)
			return
		}
		p.sim.noteReceived(WireEvent{At: simrt.S.Now(), Seq: simrt.S.Seq, Conn: pc, FromSUT: true, Msg: msg})
		if p.Hook != nil && p.Hook(pc, msg) {
			continue
		}
		p.handle(pc, msg)
	}
}

func (p *PeerModel) stall() bool {
	if p.StallBudget > 0 && p.chance(p.StallRate) {
		p.StallBudget--
		p.sim.c.FaultFired("F-peer-stall")
		return true
	}
	return false
}

func (p *PeerModel) handle(pc *PeerConn, msg wire.Message) {
	switch m := msg.(type) {
	case *wire.MsgVersion:
		pc.VersionSeen = true
		if p.NoHandshake {
			return
		}
		me := wire.NewNetAddressIPPort([]byte{127, 0, 0, 1}, 8333, 0)
		you := wire.NewNetAddressIPPort([]byte{127, 0, 0, 1}, 9333, 0)
		v := wire.NewMsgVersion(me, you, 7, int32(p.Best.Height))
		v.UserAgent = "/sim-peer/"
		pc.Send(v)
		pc.Send(wire.NewMsgVerAck())
	case *wire.MsgVerAck:
		pc.VerackSeen = true
	case *wire.MsgPing:
		pc.Send(wire.NewMsgPong(m.Nonce))
	case *wire.MsgPong:
	case *wire.MsgSendHeaders:
		pc.SendHeaders = true
		// a block that arrived while we were still announcing by inv is announced now, together
		// with its missing parents (what a node does when the next block arrives)
		if !p.Silent && pc.LastCommon != p.Best {
			p.announce(pc)
		}
	case *wire.MsgGetAddr:
		// no addresses to offer
	case *wire.MsgMemPool:
		if p.Silent {
			return
		}
		inv := wire.NewMsgInv()
		for _, tx := range p.Mempool {
			inv.AddInvVect(wire.NewInvVect(wire.InvTypeTx, tx.TxHash()))
		}
		if len(inv.InvList) > 0 {
			pc.Send(inv)
		}
	case *wire.MsgGetHeaders:
		if p.Silent || p.stall() {
			return
		}
		start := p.sim.Tree.Genesis
		best := p.Best
		for _, h := range m.BlockLocatorHashes {
			if b, ok := p.sim.Tree.ByHash[*h]; ok && IsAncestor(b, best) {
				start = b
				break
			}
		}
		chain := Chain(best)
		hm := wire.NewMsgHeaders()
		for h := start.Height + 1; h <= best.Height && len(hm.Headers) < p.MaxHeaders; h++ {
			hdr := chain[h].Header
			hm.AddBlockHeader(&hdr)
		}
		if len(hm.Headers) > 0 {
			last := chain[start.Height+len(hm.Headers)]
			if last.Height > pc.LastCommon.Height || !IsAncestor(pc.LastCommon, best) {
				pc.LastCommon = last
			}
		} else if !IsAncestor(pc.LastCommon, best) || start.Height > pc.LastCommon.Height {
			pc.LastCommon = start
		}
		pc.Send(hm)
		if p.dup(p.DupHeaders) {
			pc.Send(hm)
		}
	case *wire.MsgGetData:
		if p.Silent {
			return
		}
		var blocks []*WBlock
		for _, iv := range m.InvList {
			switch iv.Type {
			case wire.InvTypeBlock:
				if b, ok := p.sim.Tree.ByHash[iv.Hash]; ok {
					blocks = append(blocks, b)
				}
			case wire.InvTypeTx:
				if p.stall() {
					continue
				}
				var tx *wire.MsgTx
				if p.ServeTx != nil {
					tx = p.ServeTx(iv.Hash)
				} else {
					for _, t := range p.Mempool {
						if *t.TxHash() == iv.Hash {
							tx = t
						}
					}
				}
				if tx != nil {
					pc.Send(tx)
				}
			}
		}
		if len(blocks) > 1 && p.chance(p.ReorderBlock) {
			p.sim.c.FaultFired("F-peer-reorder")
			for i := len(blocks) - 1; i > 0; i-- {
				j := int(p.tape.Choose(uint32(i + 1)))
				blocks[i], blocks[j] = blocks[j], blocks[i]
			}
		}
		for _, b := range blocks {
			if p.stall() {
				continue
			}
			if p.UnsolicitedBudget > 0 && p.chance(p.Unsolicited) {
				p.UnsolicitedBudget--
				var u *WBlock
				switch p.tape.Choose(3) {
				case 0: // further up the best chain than anything in a ten-block window
					best := p.Best
					if best.Height > b.Height+11 {
						u = Ancestor(best, b.Height+11+int(p.tape.Choose(uint32(best.Height-b.Height-11))))
					}
				case 1: // some other block of the tree with a body (abandoned branches included)
					u = p.sim.Tree.Blocks[p.tape.Choose(uint32(len(p.sim.Tree.Blocks)))]
				default: // an ancestor again
					if b.Height > 2 {
						u = Ancestor(b, 1+int(p.tape.Choose(uint32(b.Height-1))))
					}
				}
				if u != nil && u.Txs != nil && u != b {
					if p.UnsolicitedSent == nil {
						p.UnsolicitedSent = map[bitcoin.Hash32]bool{}
					}
					p.UnsolicitedSent[u.Hash] = true
					p.sim.c.FaultFired("F-peer-unsolicited-block")
					pc.Send(u.MsgBlock(false))
				}
			}
			bad := p.BadBody != nil && p.BadBody[b.Hash]
			pc.Send(b.MsgBlock(bad))
			if p.dup(p.DupBlock) {
				pc.Send(b.MsgBlock(bad))
			}
		}
	case *wire.MsgTx:
		// a transaction broadcast by the node
		p.sim.noteBroadcast(pc, m)
	}
}

// announce tells one connection about the current best chain (BIP 130 style).
func (p *PeerModel) announce(pc *PeerConn) {
	if pc.Dead || !pc.VerackSeen {
		return
	}
	best := p.Best // Send yields: the scenario may move p.Best meanwhile
	if !pc.SendHeaders {
		inv := wire.NewMsgInv()
		inv.AddInvVect(wire.NewInvVect(wire.InvTypeBlock, &best.Hash))
		pc.Send(inv)
		return
	}
	fork := ForkPoint(pc.LastCommon, best)
	chain := Chain(best)
	pc.LastCommon = best
	for h := fork.Height + 1; h <= best.Height; {
		hm := wire.NewMsgHeaders()
		chunk := p.AnnounceChunk
		if chunk <= 0 {
			chunk = p.MaxHeaders
		}
		for ; h <= best.Height && len(hm.Headers) < chunk; h++ {
			hdr := chain[h].Header
			hm.AddBlockHeader(&hdr)
		}
		pc.Send(hm)
		if p.dup(p.DupHeaders) {
			pc.Send(hm)
		}
	}
}

// SetBest moves the peer's best chain and announces it on every live connection.
func (p *PeerModel) SetBest(b *WBlock) {
	p.Best = b
	if p.Silent {
		return
	}
	for _, pc := range p.Conns {
		p.announce(pc)
	}
}

// Reannounce sends the current tip again although nothing changed (unsolicited duplicate).
func (p *PeerModel) ReannounceTip() {
	for _, pc := range p.Conns {
		if pc.Dead || !pc.SendHeaders || p.Best.Parent == nil {
			continue
		}
		hm := wire.NewMsgHeaders()
		hdr := p.Best.Header
		hm.AddBlockHeader(&hdr)
		pc.Send(hm)
	}
}

// AnnounceTx sends an inv for tx on all live, handshaken connections.
func (p *PeerModel) AnnounceTx(txs ...*wire.MsgTx) {
	for _, tx := range txs {
		known := false
		for _, t := range p.Mempool {
			if t == tx {
				known = true
			}
		}
		if !known {
			p.Mempool = append(p.Mempool, tx)
		}
	}
	for _, pc := range p.Conns {
		if pc.Dead || !pc.VerackSeen {
			continue
		}
		inv := wire.NewMsgInv()
		for _, tx := range txs {
			inv.AddInvVect(wire.NewInvVect(wire.InvTypeTx, tx.TxHash()))
		}
		pc.Send(inv)
	}
}

// PushTx sends the transaction body unsolicited.
func (p *PeerModel) PushTx(tx *wire.MsgTx) {
	for _, pc := range p.Conns {
		if pc.Dead || !pc.VerackSeen {
			continue
		}
		pc.Send(tx)
	}
}

// Live returns the newest live connection, if any.
func (p *PeerModel) Live() *PeerConn {
	for i := len(p.Conns) - 1; i >= 0; i-- {
		if !p.Conns[i].Dead && !p.Conns[i].C.IsClosed() {
			return p.Conns[i]
		}
	}
	return nil
}
