//go:build go1.26

//go:debug asynctimerchan=0

// Package verifsim is the simulation harness. It is compiled as part of the spynode module (mounted
// by a build overlay at internal/verifsim) so that it can drive the real internal packages.
package verifsim

import (
	"context"
	"encoding/binary"
	"encoding/json"
	"flag"
	"fmt"
	"hash/fnv"
	"os"
	"runtime/debug"
	"sort"
	"strings"
	"testing"
	"testing/synctest"
	"time"

	"github.com/tokenized/logger"
	"verif.local/simrt"
)

var (
	flagProp     = flag.String("prop", "", "property id")
	flagTier     = flag.String("tier", "quick", "quick|thorough")
	flagSeed     = flag.Uint64("seed", 1, "base seed")
	flagStart    = flag.Int("start", 0, "first run index")
	flagCount    = flag.Int("count", 1, "number of runs")
	flagStride   = flag.Int("stride", 1, "run index stride (worker fan-out)")
	flagOut      = flag.String("out", "", "result file (JSON lines)")
	flagReplay   = flag.String("replay", "", "replay file")
	flagReplays  = flag.String("replaydir", "", "directory for replay files of violations")
	flagTrace    = flag.Bool("trace", false, "print events as they happen")
	flagKnown    = flag.String("known", "", "open known findings as clause|key entries separated by ';' (key may end in *): not minimised, no replay file")
	flagMinBudg  = flag.Duration("minbudget", 45*time.Second, "wall-clock budget for minimisation per violation")
	flagDeadline = flag.Duration("deadline", 0, "wall-clock budget for this worker (0 = none)")
	flagList     = flag.Bool("list", false, "list registered checks")
	flagSUTLog   = flag.Bool("sutlog", false, "print spynode's own log (debugging)")
	flagSub      = flag.String("sub", "", "restrict to one sub-check of the property (debugging)")
)

// Violation is one oracle failure. Clause names the sentence of the oracle, Key the call site /
// operation / input class, so that two reports are "the same defect" iff clause and key agree.
type Violation struct {
	Clause   string `json:"clause"`
	Key      string `json:"key"`
	Msg      string `json:"msg"`
	EventSeq uint64 `json:"event_seq"`
}

// RunResult is what one simulated run reports.
type RunResult struct {
	Prop         string            `json:"prop"`
	Sub          string            `json:"sub"`
	Run          int               `json:"run"`
	Seed         uint64            `json:"seed"`
	Violations   []Violation       `json:"violations,omitempty"`
	Inconclusive string            `json:"inconclusive,omitempty"`
	Hash         string            `json:"hash"`
	Steps        uint64            `json:"steps"`
	SimSeconds   float64           `json:"sim_seconds"`
	Faults       map[string][2]int `json:"faults,omitempty"` // kind -> {configured, fired}
	Probes       map[string]int    `json:"probes,omitempty"`
	Nontrivial   bool              `json:"nontrivial"`
	Summary      string            `json:"summary"`
	Exhaustive   bool              `json:"exhaustive,omitempty"`
	Cases        int               `json:"cases,omitempty"` // evaluations inside this run (component engines)
	NontrivialCases int            `json:"nontrivial_cases,omitempty"`
	Recheck      string            `json:"recheck,omitempty"` // "", "same", "mismatch"
	WallMs       float64           `json:"wall_ms"`
	Replay       string            `json:"replay,omitempty"`
	trace        []string
	scenTape     []uint32
	schedTape    []uint32
}

// Ctx is handed to a check for one run.
type Ctx struct {
	T     *testing.T
	Tier  string
	Run   int
	Seed  uint64
	Scen  *simrt.Tape // scenario / world decisions
	Sched *simrt.Tape // scheduler decisions
	Res   *RunResult
	Trace bool
	// OnlyClauses, when set, restricts what this registration reports (a scenario shared with
	// another property is judged here for the clauses that belong to this property only).
	OnlyClauses []string
}

func (c *Ctx) Violate(clause, key, format string, args ...interface{}) {
	if len(c.OnlyClauses) > 0 && clause != "harness-panic" && clause != "panic" {
		ok := false
		for _, x := range c.OnlyClauses {
			if x == clause {
				ok = true
			}
		}
		if !ok {
			return
		}
	}
	seq := uint64(0)
	if simrt.S != nil {
		seq = simrt.S.Seq
	}
	for _, v := range c.Res.Violations {
		if v.Clause == clause && v.Key == key {
			return
		}
	}
	c.Res.Violations = append(c.Res.Violations, Violation{Clause: clause, Key: key,
		Msg: fmt.Sprintf(format, args...), EventSeq: seq})
}

// workerHashes collects the distinct hashes of non-trivial cases explored by this worker process.
var workerHashes = map[uint64]struct{}{}

// NoteCase records one explored case (component engines call it per generated sequence).
func (c *Ctx) NoteCase(nontrivial bool, repr string) {
	c.Res.Cases++
	if nontrivial {
		h := fnv.New64a()
		h.Write([]byte(repr))
		workerHashes[h.Sum64()] = struct{}{}
		c.Res.NontrivialCases++
	}
}

func (c *Ctx) Probe(name string) { c.ProbeN(name, 1) }

func (c *Ctx) ProbeN(name string, n int) {
	if c.Res.Probes == nil {
		c.Res.Probes = map[string]int{}
	}
	c.Res.Probes[name] += n
}

func (c *Ctx) FaultConfigured(kind string) {
	if c.Res.Faults == nil {
		c.Res.Faults = map[string][2]int{}
	}
	f := c.Res.Faults[kind]
	f[0]++
	c.Res.Faults[kind] = f
}

func (c *Ctx) FaultFired(kind string) {
	if c.Res.Faults == nil {
		c.Res.Faults = map[string][2]int{}
	}
	f := c.Res.Faults[kind]
	f[1]++
	c.Res.Faults[kind] = f
}

// Check is one registered sub-check of a property. A property may have several (e.g. a component
// engine and the whole-node engine); each run index is mapped to one of them by Weight.
type Check struct {
	Prop   string
	Sub    string
	Weight int                 // share of runs (quick tier)
	Once   bool                // deterministic supplement: executed exactly once per check (run 0)
	Run    func(c *Ctx)        // executes one run; must be a pure function of the tapes
	Budget map[string]int      // tier -> default number of runs for the whole property (set on first sub)
	Req    []string            // required probes (REACH-LOST if zero over a batch)
	Real   []string            // components running real code
	Stub   []string            // stubbed components
	Rule   string              // how cases are generated and what makes one non-trivial
	NoBubble bool              // run outside a synctest bubble (no clock or scheduling involved)
}

var registry []*Check

func Register(c *Check) { registry = append(registry, c) }

func checksFor(prop string) []*Check {
	var out []*Check
	for _, c := range registry {
		if c.Prop == prop && (*flagSub == "" || *flagSub == c.Sub) {
			out = append(out, c)
		}
	}
	return out
}

// pick maps a run index to a sub-check. Once-checks take the first indexes.
func pick(cs []*Check, run int) *Check {
	var once, rest []*Check
	for _, c := range cs {
		if c.Once {
			once = append(once, c)
		} else {
			rest = append(rest, c)
		}
	}
	if run < len(once) {
		return once[run]
	}
	if len(rest) == 0 {
		return nil
	}
	total := 0
	for _, c := range rest {
		w := c.Weight
		if w <= 0 {
			w = 1
		}
		total += w
	}
	k := (run - len(once)) % total
	for _, c := range rest {
		w := c.Weight
		if w <= 0 {
			w = 1
		}
		if k < w {
			return c
		}
		k -= w
	}
	return rest[0]
}

func runSeed(base uint64, run int) uint64 {
	x := base*0x9e3779b97f4a7c15 + uint64(run)*0xbf58476d1ce4e5b9 + 0x1234
	return simrt.SplitMix(&x)
}

// execute performs one run of a check with the given tapes inside a fresh bubble.
func execute(t *testing.T, ck *Check, run int, seed uint64, scen, sched *simrt.Tape, trace bool) *RunResult {
	res := &RunResult{Prop: ck.Prop, Sub: ck.Sub, Run: run, Seed: seed}
	ctx := &Ctx{T: t, Tier: *flagTier, Run: run, Seed: seed, Scen: scen, Sched: sched, Res: res, Trace: trace}
	t0 := time.Now()
	func() {
		defer func() {
			if r := recover(); r != nil {
				msg := fmt.Sprint(r)
				if strings.Contains(msg, "deadlock") && strings.Contains(msg, "bubble") {
					// goroutines of the run that could not be ended (blocked in a primitive
					// the simulator does not own); the run's own verdict stands.
					res.Probes = addProbe(res.Probes, "leaked_goroutines_at_end")
					return
				}
				res.Violations = append(res.Violations, Violation{Clause: "harness-panic", Key: "harness",
					Msg: fmt.Sprintf("%v\n%s", r, debug.Stack())})
			}
		}()
		if ck.NoBubble {
			ck.Run(ctx)
			return
		}
		synctest.Test(t, func(t *testing.T) {
			simrt.ResetRand(seed)
			func() {
				defer func() {
					if r := recover(); r != nil {
						res.Violations = append(res.Violations, Violation{Clause: "harness-panic", Key: "harness",
							Msg: fmt.Sprintf("%v\n%s", r, debug.Stack())})
					}
				}()
				ck.Run(ctx)
			}()
			if s := simrt.S; s != nil {
				res.Hash = fmt.Sprintf("%016x", s.Hash())
				res.Steps = s.Steps
				res.SimSeconds = s.Now().Seconds()
				res.trace = s.TraceLines()
				for i := 0; i < s.Stalls; i++ {
					ctx.FaultFired("F-thread-stall")
				}
				if s.UnlockYields > 0 {
					ctx.ProbeN("post_unlock_preemptions", int(s.UnlockYields))
				}
				if s.AtomicYields > 0 {
					ctx.ProbeN("atomic_preemptions", int(s.AtomicYields))
				}
				if s.PostSendYields > 0 {
					ctx.ProbeN("post_send_preemptions", int(s.PostSendYields))
				}
				if s.Zeno {
					res.Inconclusive = "zeno"
				} else if s.StepCap {
					res.Inconclusive = "stepcap"
				}
				s.Kill()
				simrt.S = nil
			}
		})
	}()
	simrt.S = nil
	res.WallMs = float64(time.Since(t0).Microseconds()) / 1000
	res.scenTape = scen.Consumed()
	res.schedTape = sched.Consumed()
	return res
}

func addProbe(m map[string]int, k string) map[string]int {
	if m == nil {
		m = map[string]int{}
	}
	m[k]++
	return m
}

// ReplayFile is the on-disk form of a violation.
type ReplayFile struct {
	Format    int               `json:"format"`
	Property  string            `json:"property"`
	Sub       string            `json:"sub"`
	Clause    string            `json:"clause"`
	Key       string            `json:"key"`
	Msg       string            `json:"msg"`
	Seed      uint64            `json:"seed"`
	BaseSeed  uint64            `json:"base_seed"`
	Run       int               `json:"run"`
	Tier      string            `json:"tier"`
	ScenTape  []uint32          `json:"scen_tape"`
	SchedTape []uint32          `json:"sched_tape"`
	Minimised bool              `json:"tape_minimised"`
	MinStable bool              `json:"minimisation_stable"`
	EventSeq  uint64            `json:"event_seq"`
	LogHash   string            `json:"log_hash"`
	Faults    map[string][2]int `json:"faults_fired,omitempty"`
	Summary   string            `json:"summary"`
	Trace     []string          `json:"trace"`
}

func hasViolation(r *RunResult, clause, key string) *Violation {
	for i := range r.Violations {
		if r.Violations[i].Clause == clause && r.Violations[i].Key == key {
			return &r.Violations[i]
		}
	}
	return nil
}

// minimise shrinks the tapes while the same clause+key keeps failing.
func minimise(t *testing.T, ck *Check, r *RunResult, v Violation, budget time.Duration) (scen, sched []uint32, final *RunResult) {
	deadline := time.Now().Add(budget)
	scen = append([]uint32(nil), r.scenTape...)
	sched = append([]uint32(nil), r.schedTape...)
	final = r
	tries := 0
	try := func(sc, sd []uint32) bool {
		if time.Now().After(deadline) || tries > 400 {
			return false
		}
		tries++
		rr := execute(t, ck, r.Run, r.Seed, simrt.ReplayTape(sc), simrt.ReplayTape(sd), false)
		if hasViolation(rr, v.Clause, v.Key) != nil {
			final = rr
			return true
		}
		return false
	}
	// 1. schedule: all zeros, then shortest failing prefix
	if len(sched) > 0 && try(scen, nil) {
		sched = nil
	} else {
		lo, hi := 0, len(sched)
		for lo < hi && time.Now().Before(deadline) {
			mid := (lo + hi) / 2
			if try(scen, sched[:mid]) {
				hi = mid
			} else {
				lo = mid + 1
			}
		}
		if hi < len(sched) && try(scen, sched[:hi]) {
			sched = sched[:hi]
		}
	}
	// 2. scenario tape: truncate, then zero blocks
	lo, hi := 0, len(scen)
	for lo < hi && time.Now().Before(deadline) {
		mid := (lo + hi) / 2
		if try(scen[:mid], sched) {
			hi = mid
		} else {
			lo = mid + 1
		}
	}
	if hi < len(scen) && try(scen[:hi], sched) {
		scen = scen[:hi]
	}
	for blk := len(scen) / 2; blk >= 1 && time.Now().Before(deadline); blk /= 2 {
		for i := 0; i+blk <= len(scen) && time.Now().Before(deadline); i += blk {
			allZero := true
			for _, x := range scen[i : i+blk] {
				if x != 0 {
					allZero = false
				}
			}
			if allZero {
				continue
			}
			cand := append([]uint32(nil), scen...)
			for j := i; j < i+blk; j++ {
				cand[j] = 0
			}
			if try(cand, sched) {
				scen = cand
			}
		}
	}
	// 3. schedule tape: zero blocks
	for blk := len(sched) / 2; blk >= 1 && time.Now().Before(deadline); blk /= 2 {
		for i := 0; i+blk <= len(sched) && time.Now().Before(deadline); i += blk {
			allZero := true
			for _, x := range sched[i : i+blk] {
				if x != 0 {
					allZero = false
				}
			}
			if allZero {
				continue
			}
			cand := append([]uint32(nil), sched...)
			for j := i; j < i+blk; j++ {
				cand[j] = 0
			}
			if try(scen, cand) {
				sched = cand
			}
		}
	}
	return scen, sched, final
}

func writeReplay(dir string, ck *Check, base uint64, r *RunResult, v Violation, scen, sched []uint32, minimised, stable bool) string {
	rf := ReplayFile{Format: 4, Property: ck.Prop, Sub: ck.Sub, Clause: v.Clause, Key: v.Key, Msg: v.Msg,
		Seed: r.Seed, BaseSeed: base, Run: r.Run, Tier: *flagTier, ScenTape: scen, SchedTape: sched,
		Minimised: minimised, MinStable: stable, EventSeq: v.EventSeq, LogHash: r.Hash, Faults: r.Faults,
		Summary: r.Summary, Trace: r.trace}
	if rf.ScenTape == nil {
		rf.ScenTape = []uint32{}
	}
	if rf.SchedTape == nil {
		rf.SchedTape = []uint32{}
	}
	os.MkdirAll(dir, 0o755)
	name := fmt.Sprintf("%s/%s-%s-%s-%d-%d.json", dir, ck.Prop, sanitize(v.Clause), sanitize(v.Key), base, r.Run)
	js, _ := json.MarshalIndent(rf, "", " ")
	os.WriteFile(name, js, 0o644)
	return name
}

func sanitize(s string) string {
	var b strings.Builder
	for _, r := range s {
		if (r >= 'a' && r <= 'z') || (r >= 'A' && r <= 'Z') || (r >= '0' && r <= '9') || r == '-' || r == '_' {
			b.WriteRune(r)
		} else {
			b.WriteByte('_')
		}
	}
	out := b.String()
	if len(out) > 60 {
		out = out[:60]
	}
	return out
}

// TestVerif is the worker entry point.
func TestVerif(t *testing.T) {
	if *flagList {
		info := map[string]interface{}{}
		var real, stub, req, subs []string
		add := func(dst *[]string, xs []string) {
			for _, x := range xs {
				dup := false
				for _, y := range *dst {
					if y == x {
						dup = true
					}
				}
				if !dup {
					*dst = append(*dst, x)
				}
			}
		}
		rule := ""
		for _, c := range registry {
			fmt.Printf("%s/%s weight=%d once=%v\n", c.Prop, c.Sub, c.Weight, c.Once)
			if c.Prop == *flagProp {
				add(&real, c.Real)
				add(&stub, c.Stub)
				add(&req, c.Req)
				subs = append(subs, c.Sub)
				if c.Rule != "" {
					rule += c.Sub + ": " + c.Rule + " "
				}
			}
		}
		info["real"], info["stub"], info["req"], info["subs"], info["rule"] = real, stub, req, subs, rule
		js, _ := json.Marshal(info)
		fmt.Printf("INFO %s\n", js)
		return
	}
	if *flagReplay != "" {
		doReplay(t)
		return
	}
	if *flagProp == "" {
		t.Skip("no -prop given")
	}
	cs := checksFor(*flagProp)
	if len(cs) == 0 {
		fmt.Printf("HARNESS-TROUBLE no check registered for %s\n", *flagProp)
		os.Exit(2)
	}
	var out *os.File
	if *flagOut != "" {
		f, err := os.Create(*flagOut)
		if err != nil {
			fmt.Println("HARNESS-TROUBLE", err)
			os.Exit(2)
		}
		out = f
		defer f.Close()
	}
	start := time.Now()
	seenViol := map[string]int{}
	for i := 0; i < *flagCount; i++ {
		if *flagDeadline > 0 && time.Since(start) > *flagDeadline {
			break
		}
		run := *flagStart + i**flagStride
		ck := pick(cs, run)
		if ck == nil {
			break
		}
		seed := runSeed(*flagSeed, run)
		scen := simrt.NewTape(seed ^ 0xa5a5a5a5)
		sched := simrt.NewTape(seed ^ 0x5a5a5a5a5a)
		r := execute(t, ck, run, seed, scen, sched, *flagTrace)
		if r.Nontrivial && r.Hash != "" && r.Cases == 0 {
			var hv uint64
			fmt.Sscanf(r.Hash, "%x", &hv)
			workerHashes[hv] = struct{}{}
		}
		if run%25 == 0 && len(r.Violations) == 0 && !ck.Once {
			// determinism re-check: the recorded tapes must reproduce the same event-log hash
			rr := execute(t, ck, run, seed, simrt.ReplayTape(r.scenTape), simrt.ReplayTape(r.schedTape), false)
			if rr.Hash == r.Hash && len(rr.Violations) == 0 && rr.Cases == r.Cases {
				r.Recheck = "same"
			} else {
				r.Recheck = "mismatch"
			}
		}
		for _, v := range r.Violations {
			id := v.Clause + "|" + v.Key
			seenViol[id]++
			if seenViol[id] > 1 || *flagReplays == "" || isKnownOpen(v) {
				continue // one minimised replay file per distinct clause+key per worker
			}
			sc, sd, fin := minimise(t, ck, r, v, *flagMinBudg)
			// confirm the minimised tapes once more; fall back to the original tapes if unstable
			rr := execute(t, ck, r.Run, r.Seed, simrt.ReplayTape(sc), simrt.ReplayTape(sd), false)
			if vv := hasViolation(rr, v.Clause, v.Key); vv != nil {
				r.Replay = writeReplay(*flagReplays, ck, *flagSeed, rr, *vv, sc, sd, true, true)
			} else {
				_ = fin
				r.Replay = writeReplay(*flagReplays, ck, *flagSeed, r, v, r.scenTape, r.schedTape, false, false)
			}
		}
		if out != nil {
			js, _ := json.Marshal(r)
			out.Write(js)
			out.Write([]byte("\n"))
		}
	}
	if *flagOut != "" {
		buf := make([]byte, 0, 8*len(workerHashes))
		for h := range workerHashes {
			buf = binary.LittleEndian.AppendUint64(buf, h)
		}
		os.WriteFile(*flagOut+".hashes", buf, 0o644)
	}
}

// maybeStalls switches the thread-stall fault on for about half of the runs: a few times per run a
// task loses the processor for 1..maxMs simulated milliseconds at a pre-emption point. It widens
// every "between two steps of one thread" window without changing what any thread does.
func maybeStalls(c *Ctx, s *simrt.Sched, maxMs ...int) {
	t := c.Scen
	if s.PreemptDen < 2 || !t.Bool(1, 2) {
		return
	}
	if len(maxMs) == 0 {
		maxMs = []int{5, 50, 300}
	}
	s.StallBudget, s.StallDen, s.StallMaxMs = 1+int(t.Choose(4)), uint32(pickFrom(t, 3, 8, 32)), uint32(pickFrom(t, maxMs...))
	c.FaultConfigured("F-thread-stall")
}

// isKnownOpen: the violation is listed as an open known finding (the orchestrator prints the
// KNOWN-FINDING line); minimising it again on every run would only burn the budget.
func isKnownOpen(v Violation) bool {
	for _, e := range strings.Split(*flagKnown, ";") {
		parts := strings.SplitN(e, "|", 2)
		if len(parts) != 2 || parts[0] != v.Clause {
			continue
		}
		if k := parts[1]; k == v.Key || (strings.HasSuffix(k, "*") && strings.HasPrefix(v.Key, strings.TrimSuffix(k, "*"))) {
			return true
		}
	}
	return false
}

func doReplay(t *testing.T) {
	data, err := os.ReadFile(*flagReplay)
	if err != nil {
		fmt.Println("HARNESS-TROUBLE", err)
		os.Exit(2)
	}
	var rf ReplayFile
	if err := json.Unmarshal(data, &rf); err != nil {
		fmt.Println("HARNESS-TROUBLE", err)
		os.Exit(2)
	}
	*flagTier = rf.Tier
	simrt.PostSendOff = rf.Format < 2 // format 1: written before the pre-emption point behind a send existed
	simrt.AtomicOff = rf.Format < 3   // format 1, 2: before the one in front of atomic operations
	simrt.UnlockOff = rf.Format < 4   // format 1-3: before the one behind an unlock
	var ck *Check
	for _, c := range registry {
		if c.Prop == rf.Property && c.Sub == rf.Sub {
			ck = c
		}
	}
	if ck == nil {
		fmt.Printf("HARNESS-TROUBLE no check %s/%s\n", rf.Property, rf.Sub)
		os.Exit(2)
	}
	r := execute(t, ck, rf.Run, rf.Seed, simrt.ReplayTape(rf.ScenTape), simrt.ReplayTape(rf.SchedTape), *flagTrace)
	v := hasViolation(r, rf.Clause, rf.Key)
	res := map[string]interface{}{"reproduced": v != nil, "hash": r.Hash, "expected_hash": rf.LogHash,
		"violations": r.Violations, "summary": r.Summary}
	if v != nil {
		res["event_seq"] = v.EventSeq
		res["same_hash"] = r.Hash == rf.LogHash
	}
	js, _ := json.MarshalIndent(res, "", " ")
	fmt.Println(string(js))
	if *flagTrace || v != nil {
		lines := r.trace
		if len(lines) > 60 && !*flagTrace {
			lines = lines[len(lines)-60:]
		}
		for _, l := range lines {
			fmt.Println("  ", l)
		}
	}
	if v != nil {
		fmt.Printf("REPRODUCED property=%s clause=%s key=%s\n", rf.Property, rf.Clause, rf.Key)
	} else {
		fmt.Printf("NOT-REPRODUCED property=%s clause=%s key=%s\n", rf.Property, rf.Clause, rf.Key)
	}
}

// quietCtx is a context whose logger discards everything.
func quietCtx() context.Context {
	if *flagSUTLog {
		cfg := logger.NewConfig(true, true, "")
		cfg.EnableSubSystem("SpyNode")
		return logger.ContextWithLogConfig(context.Background(), cfg)
	}
	return logger.ContextWithNoLogger(context.Background())
}

func sortedKeys(m map[string]int) []string {
	out := make([]string, 0, len(m))
	for k := range m {
		out = append(out, k)
	}
	sort.Strings(out)
	return out
}
