//go:build go1.26

package simrt

import (
	"reflect"
	"runtime"
)

// Channel operations: a pre-emption point, a non-blocking attempt while holding the baton, and
// only if that fails release -> real blocking operation (with the run's kill channel) -> acquire.
// The real channel carries the value.

func SendBi[T any](ch chan T, v T) { sendDir[T](ch, v) }

func SendDir[T any](ch chan<- T, v T) { sendDir[T](ch, v) }

func sendDir[T any](ch chan<- T, v T) {
	s := S
	if s == nil || s.cur == nil {
		ch <- v
		return
	}
	if s.killed {
		runtime.Goexit()
	}
	Yield()
	select {
	case ch <- v:
		postSend()
		return
	default:
	}
	t := s.cur
	s.release(t, stInOp)
	select {
	case ch <- v:
	case <-s.kill:
		runtime.Goexit()
	}
	s.acquire(t)
	postSend()
}

// AtomicOff switches the pre-emption point in front of atomic operations off (replay files of
// format 1 and 2).
var AtomicOff bool

// Pre is a pre-emption point in front of an operation of sync/atomic: v.Load() is rewritten to
// simrt.Pre(v.Load)(). Protocols built on atomic flags and counters (check, then act) are only
// explored if another task can run between two atomic operations of one task. Half of the runs
// have it (the schedule tape decides at the first atomic operation).
func Pre[F any](f F) F {
	s := S
	if AtomicOff || s == nil {
		return f
	}
	t := s.cur
	if t == nil || s.killed || t.noPre > 0 || s.PreemptDen < 2 {
		return f
	}
	if !s.atomInit {
		s.atomInit = true
		s.atomOn = s.Tape.Choose(2) == 1
	}
	if !s.atomOn || s.Tape.Choose(s.PreemptDen) != 1 {
		return f
	}
	s.AtomicYields++
	s.preempt(t)
	return f
}

// PostSendOff switches the pre-emption point behind a completed send off (replay files written
// before it existed: format 1).
var PostSendOff bool

// postSend is a pre-emption point right after a value was handed over: the receiver may run with
// it before the sender executes its next statement ("publish, then update" orders). Half of the
// runs have it (the schedule tape decides at the first send), with the run's pre-emption coin.
func postSend() {
	s := S
	if PostSendOff || s == nil {
		return
	}
	t := s.cur
	if t == nil || s.killed || t.noPre > 0 || s.PreemptDen < 2 {
		return
	}
	if !s.postInit {
		s.postInit = true
		s.postOn = s.Tape.Choose(2) == 1
	}
	if !s.postOn || s.Tape.Choose(s.PreemptDen) != 1 {
		return
	}
	s.PostSendYields++
	s.preempt(t)
}

func RecvBi[T any](ch chan T) T { v, _ := recvDir[T](ch); return v }

func RecvDir[T any](ch <-chan T) T { v, _ := recvDir[T](ch); return v }

func Recv2Bi[T any](ch chan T) (T, bool) { return recvDir[T](ch) }

func Recv2Dir[T any](ch <-chan T) (T, bool) { return recvDir[T](ch) }

func recvDir[T any](ch <-chan T) (T, bool) {
	s := S
	if s == nil || s.cur == nil {
		v, ok := <-ch
		return v, ok
	}
	if s.killed {
		runtime.Goexit()
	}
	Yield()
	select {
	case v, ok := <-ch:
		return v, ok
	default:
	}
	t := s.cur
	s.release(t, stInOp)
	var v T
	var ok bool
	select {
	case v, ok = <-ch:
	case <-s.kill:
		runtime.Goexit()
	}
	s.acquire(t)
	return v, ok
}

// SelCase is one communication clause of a rewritten select statement.
type SelCase interface {
	selCase() reflect.SelectCase
	selDone(v reflect.Value, ok bool)
}

type RecvCase[T any] struct {
	ch  <-chan T
	Val T
	Ok  bool
}

func NewRecvBi[T any](ch chan T) *RecvCase[T]    { return &RecvCase[T]{ch: ch} }
func NewRecvDir[T any](ch <-chan T) *RecvCase[T] { return &RecvCase[T]{ch: ch} }

func (c *RecvCase[T]) selCase() reflect.SelectCase {
	return reflect.SelectCase{Dir: reflect.SelectRecv, Chan: reflect.ValueOf(c.ch)}
}

func (c *RecvCase[T]) selDone(v reflect.Value, ok bool) {
	c.Ok = ok
	if v.IsValid() {
		if x, isT := v.Interface().(T); isT {
			c.Val = x
		}
	}
}

type SendCase[T any] struct {
	ch chan<- T
	v  T
}

func NewSendBi[T any](ch chan T, v T) *SendCase[T]    { return &SendCase[T]{ch: ch, v: v} }
func NewSendDir[T any](ch chan<- T, v T) *SendCase[T] { return &SendCase[T]{ch: ch, v: v} }

func (c *SendCase[T]) selCase() reflect.SelectCase {
	// reflect.ValueOf on an interface-typed nil yields an invalid Value; build it via a pointer
	// so that nil interface values are carried with the channel's element type.
	return reflect.SelectCase{Dir: reflect.SelectSend, Chan: reflect.ValueOf(c.ch),
		Send: reflect.ValueOf(&c.v).Elem()}
}

func (c *SendCase[T]) selDone(reflect.Value, bool) {}

type sendCase interface{ isSend() }

func (c *SendCase[T]) isSend() {}

// Select executes a rewritten select statement and returns the index of the chosen clause, or -1
// for the default clause. When several clauses are ready the choice is the tape's.
func Select(hasDefault bool, cases ...SelCase) int {
	s := S
	n := len(cases)
	rc := make([]reflect.SelectCase, n, n+2)
	for i, c := range cases {
		rc[i] = c.selCase()
	}
	if s == nil || s.cur == nil {
		if hasDefault {
			rc = append(rc, reflect.SelectCase{Dir: reflect.SelectDefault})
		}
		i, v, ok := reflect.Select(rc)
		if i >= n {
			return -1
		}
		cases[i].selDone(v, ok)
		return i
	}
	if s.killed {
		runtime.Goexit()
	}
	Yield()
	// poll once in a tape-permuted order
	start := 0
	if n > 1 {
		start = int(s.Tape.Choose(uint32(n)))
	}
	two := make([]reflect.SelectCase, 2)
	two[1] = reflect.SelectCase{Dir: reflect.SelectDefault}
	for k := 0; k < n; k++ {
		i := (start + k) % n
		if !rc[i].Chan.IsValid() || rc[i].Chan.IsNil() {
			continue
		}
		two[0] = rc[i]
		j, v, ok := reflect.Select(two)
		if j == 0 {
			cases[i].selDone(v, ok)
			if _, snd := cases[i].(sendCase); snd {
				postSend()
			}
			return i
		}
	}
	if hasDefault {
		return -1
	}
	t := s.cur
	rc = append(rc, reflect.SelectCase{Dir: reflect.SelectRecv, Chan: reflect.ValueOf(s.kill)})
	s.release(t, stInOp)
	i, v, ok := reflect.Select(rc)
	if i == n {
		runtime.Goexit()
	}
	s.acquire(t)
	cases[i].selDone(v, ok)
	if _, snd := cases[i].(sendCase); snd {
		postSend()
	}
	return i
}
