//go:build go1.26

package simrt

// Tape is the single source of every decision in a run: a lazily extended list of uint32 values.
// In generate mode missing values come from a SplitMix64 stream; in replay mode missing values
// read as zero (which means: no pre-emption, first runnable task, no fault, smallest choice).
type Tape struct {
	Data   []uint32
	pos    int
	state  uint64
	Replay bool
}

func NewTape(seed uint64) *Tape { return &Tape{state: seed} }

func ReplayTape(data []uint32) *Tape {
	return &Tape{Data: append([]uint32(nil), data...), Replay: true}
}

func SplitMix(x *uint64) uint64 {
	*x += 0x9e3779b97f4a7c15
	z := *x
	z = (z ^ (z >> 30)) * 0xbf58476d1ce4e5b9
	z = (z ^ (z >> 27)) * 0x94d049bb133111eb
	return z ^ (z >> 31)
}

func (t *Tape) next() uint32 {
	if t.pos < len(t.Data) {
		v := t.Data[t.pos]
		t.pos++
		return v
	}
	if t.Replay {
		t.pos++
		return 0
	}
	v := uint32(SplitMix(&t.state) >> 32)
	t.Data = append(t.Data, v)
	t.pos++
	return v
}

// Choose returns a value in [0,n).
func (t *Tape) Choose(n uint32) uint32 {
	if n <= 1 {
		return 0
	}
	return t.next() % n
}

// Raw returns the next raw value.
func (t *Tape) Raw() uint32 { return t.next() }

// Bool is true with probability num/den (false on an all-zero tape).
func (t *Tape) Bool(num, den uint32) bool {
	if num == 0 {
		return false
	}
	v := t.Choose(den)
	return v >= den-num && den >= num
}

// Range returns a value in [lo,hi].
func (t *Tape) Range(lo, hi int) int {
	if hi <= lo {
		return lo
	}
	return lo + int(t.Choose(uint32(hi-lo+1)))
}

// Pos is the number of values consumed so far.
func (t *Tape) Pos() int { return t.pos }

// Consumed returns the consumed prefix.
func (t *Tape) Consumed() []uint32 {
	n := t.pos
	if n > len(t.Data) {
		n = len(t.Data)
	}
	return append([]uint32(nil), t.Data[:n]...)
}
