//go:build go1.26

package simrt

import (
	"runtime"
	"sync"
	"time"
)

// Cond is a scheduler-aware wait queue. Waiters block on a real channel (durably, inside the
// bubble) with the baton released; Broadcast is non-blocking and may be called by the baton
// holder or from Sched.OnIdle.
type Cond struct {
	waiters []chan struct{}
}

// Wait parks until Broadcast, or until d of fake time elapsed when d >= 0. Reports true when
// woken by Broadcast.
func (c *Cond) Wait(d time.Duration) bool {
	s := S
	if s == nil || s.cur == nil {
		panic("simrt.Cond.Wait outside a simulation task")
	}
	if s.killed {
		runtime.Goexit()
	}
	t := s.cur
	ch := make(chan struct{}, 1)
	c.waiters = append(c.waiters, ch)
	s.release(t, stInOp)
	signalled := false
	if d >= 0 {
		tm := time.NewTimer(d)
		select {
		case <-ch:
			signalled = true
			tm.Stop()
		case <-tm.C:
		case <-s.kill:
			tm.Stop()
			runtime.Goexit()
		}
	} else {
		select {
		case <-ch:
			signalled = true
		case <-s.kill:
			runtime.Goexit()
		}
	}
	s.acquire(t)
	if !signalled {
		// remove ourselves (we hold the baton again, so this is race free)
		for i, w := range c.waiters {
			if w == ch {
				c.waiters = append(c.waiters[:i], c.waiters[i+1:]...)
				break
			}
		}
	}
	return signalled
}

// Broadcast wakes every waiter.
func (c *Cond) Broadcast() {
	for _, ch := range c.waiters {
		select {
		case ch <- struct{}{}:
		default:
		}
	}
	c.waiters = c.waiters[:0]
}

func (c *Cond) Waiting() int { return len(c.waiters) }

func (s *Sched) mcond(m interface{}) *Cond {
	c := s.mconds[m]
	if c == nil {
		c = &Cond{}
		s.mconds[m] = c
	}
	return c
}

// Lock acquires m cooperatively: a pre-emption point, then TryLock, parking on a per-mutex wait
// queue while another task holds it. The real mutex is still what provides mutual exclusion.
func Lock(m *sync.Mutex) {
	s := S
	if s == nil || s.cur == nil {
		m.Lock()
		return
	}
	Yield()
	for !m.TryLock() {
		if s.killed {
			runtime.Goexit()
		}
		s.mcond(m).Wait(-1)
	}
}

func Unlock(m *sync.Mutex) {
	m.Unlock()
	s := S
	if s == nil {
		return
	}
	if c := s.mconds[m]; c != nil && len(c.waiters) > 0 {
		c.Broadcast()
	}
	postUnlock()
}

func RWLock(m *sync.RWMutex) {
	s := S
	if s == nil || s.cur == nil {
		m.Lock()
		return
	}
	Yield()
	for !m.TryLock() {
		if s.killed {
			runtime.Goexit()
		}
		s.mcond(m).Wait(-1)
	}
}

func RWUnlock(m *sync.RWMutex) {
	m.Unlock()
	s := S
	if s == nil {
		return
	}
	if c := s.mconds[m]; c != nil && len(c.waiters) > 0 {
		c.Broadcast()
	}
	postUnlock()
}

func RLock(m *sync.RWMutex) {
	s := S
	if s == nil || s.cur == nil {
		m.RLock()
		return
	}
	Yield()
	for !m.TryRLock() {
		if s.killed {
			runtime.Goexit()
		}
		s.mcond(m).Wait(-1)
	}
}

func RUnlock(m *sync.RWMutex) {
	m.RUnlock()
	s := S
	if s == nil {
		return
	}
	if c := s.mconds[m]; c != nil && len(c.waiters) > 0 {
		c.Broadcast()
	}
	postUnlock()
}

// WaitGroupWait is wg.Wait() with the baton released (durably blocking in a bubble).
func WaitGroupWait(wg *sync.WaitGroup) {
	Block(func() { wg.Wait() })
}

// UnlockOff switches the pre-emption point behind an unlock off (replay files of format 1-3).
var UnlockOff bool

// postUnlock is a pre-emption point right after a mutex was released: a task waiting for it may
// run its whole critical section before the releasing task executes its next statement ("unlock,
// then publish what was decided under the lock"). Half of the runs have it (the schedule tape
// decides at the first unlock), with the run's pre-emption coin.
func postUnlock() {
	s := S
	if UnlockOff || s == nil {
		return
	}
	t := s.cur
	if t == nil || s.killed || t.noPre > 0 || s.PreemptDen < 2 {
		return
	}
	if !s.unlInit {
		s.unlInit = true
		s.unlOn = s.Tape.Choose(2) == 1
	}
	if !s.unlOn || s.Tape.Choose(s.PreemptDen) != 1 {
		return
	}
	s.UnlockYields++
	s.preempt(t)
}
