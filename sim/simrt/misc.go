//go:build go1.26

package simrt

import (
	"bytes"
	"context"
	"fmt"
	"net"
	"reflect"
	"sort"
	"time"
)

// PermuteMaps: when set, Keys() permutes the sorted key list with the tape.
var PermuteMaps bool

// Keys returns the keys of m in a deterministic order (sorted; tape-permuted when PermuteMaps).
func Keys[K comparable, V any](m map[K]V) []K {
	keys := make([]K, 0, len(m))
	for k := range m {
		keys = append(keys, k)
	}
	if len(keys) > 1 {
		enc := make([][]byte, len(keys))
		for i, k := range keys {
			enc[i] = keyBytes(reflect.ValueOf(k))
		}
		idx := make([]int, len(keys))
		for i := range idx {
			idx[i] = i
		}
		sort.Slice(idx, func(a, b int) bool { return bytes.Compare(enc[idx[a]], enc[idx[b]]) < 0 })
		out := make([]K, len(keys))
		for i, j := range idx {
			out[i] = keys[j]
		}
		keys = out
		if s := S; s != nil && s.cur != nil && PermuteMaps {
			for i := len(keys) - 1; i > 0; i-- {
				j := int(s.Tape.Choose(uint32(i + 1)))
				// a zero draw must keep sorted order: swap with i-j
				j = i - j
				keys[i], keys[j] = keys[j], keys[i]
			}
		}
	}
	return keys
}

func keyBytes(v reflect.Value) []byte {
	switch v.Kind() {
	case reflect.String:
		return []byte(v.String())
	case reflect.Int, reflect.Int8, reflect.Int16, reflect.Int32, reflect.Int64:
		u := uint64(v.Int()) ^ (1 << 63)
		return []byte{byte(u >> 56), byte(u >> 48), byte(u >> 40), byte(u >> 32), byte(u >> 24), byte(u >> 16), byte(u >> 8), byte(u)}
	case reflect.Uint, reflect.Uint8, reflect.Uint16, reflect.Uint32, reflect.Uint64, reflect.Uintptr:
		u := v.Uint()
		return []byte{byte(u >> 56), byte(u >> 48), byte(u >> 40), byte(u >> 32), byte(u >> 24), byte(u >> 16), byte(u >> 8), byte(u)}
	case reflect.Array:
		if v.Type().Elem().Kind() == reflect.Uint8 {
			b := make([]byte, v.Len())
			for i := range b {
				b[i] = byte(v.Index(i).Uint())
			}
			return b
		}
	}
	return []byte(fmt.Sprintf("%#v", v.Interface()))
}

// Dial hooks: the harness installs DialHook; the rewritten SUT calls these instead of package net.
var DialHook func(network, addr string, timeout time.Duration) (net.Conn, error)

func Dial(network, addr string) (net.Conn, error) {
	if S == nil || DialHook == nil {
		return net.Dial(network, addr)
	}
	return DialHook(network, addr, 0)
}

func DialTimeout(network, addr string, d time.Duration) (net.Conn, error) {
	if S == nil || DialHook == nil {
		return net.DialTimeout(network, addr, d)
	}
	return DialHook(network, addr, d)
}

func DialContext(d *net.Dialer, ctx context.Context, network, addr string) (net.Conn, error) {
	if S == nil || DialHook == nil {
		return d.DialContext(ctx, network, addr)
	}
	return DialHook(network, addr, d.Timeout)
}

var randState uint64 = 0x1234567

// RandUint64 replaces math/rand's global generator (runtime-seeded since go1.20) by a stream that
// is reset at the start of every run.
func RandUint64() uint64 { return SplitMix(&randState) }

func ResetRand(seed uint64) { randState = seed }

// SeedValue replaces a crypto/rand 32-byte seed by bytes from the run's deterministic stream.
func SeedValue[T ~[32]byte](f func() (T, error)) (T, error) {
	if S == nil {
		return f()
	}
	var t T
	for i := 0; i < 32; i += 8 {
		v := RandUint64()
		for j := 0; j < 8; j++ {
			t[i+j] = byte(v >> (8 * j))
		}
	}
	return t, nil
}
