//go:build go1.26

// Package simrt is the deterministic "baton" scheduler that instrumented spynode code and the
// simulation harness run on. Exactly one task holds the baton at any time; every blocking or
// synchronising operation is release -> real (durably blocking) operation -> re-acquire. The
// scheduler goroutine calls synctest.Wait() after every release, so it only ever chooses among
// tasks that are all parked, and it chooses with the run's tape (PRNG or replayed values).
//
// When no scheduler is installed (S == nil) every function degrades to plain Go semantics, which
// is how the repository's own test-suite is run against the instrumented build.
package simrt

import (
	"fmt"
	"hash/fnv"
	"runtime"
	"runtime/debug"
	"sort"
	"sync"
	"testing/synctest"
	"time"
)

// S is the scheduler of the run in progress (nil outside a simulation).
var S *Sched

type Task struct {
	ID     int
	Site   string
	grant  chan struct{}
	state  int // 0 new/runnable-parked, 1 running, 2 in-op, 3 waiting (mutex / cond), 4 done
	noPre  int // >0: pre-emption coins are not drawn (oracle queries inside callbacks)
	Daemon bool
}

const (
	stRunnable = iota
	stRunning
	stInOp
	stWaiting
	stDone
)

type Sched struct {
	mu       sync.Mutex
	Tape     *Tape
	tasks    []*Task
	runnable []*Task
	cur      *Task
	last     *Task
	released chan struct{}
	wake     chan struct{}
	kill     chan struct{}
	killed   bool
	live     int

	mconds map[interface{}]*Cond

	PreemptDen uint32 // pre-empt at a point iff den>=2 && Choose(den)==1

	Steps        uint64
	stepsNoClock uint64
	lastNow      time.Time
	MaxSteps     uint64
	Zeno         bool
	StepCap      bool
	Stalled      bool // baton holder blocked without releasing
	Preemptions  uint64
	// pre-emption point behind a completed channel send (see postSend)
	postInit, postOn bool
	PostSendYields   uint64
	atomInit, atomOn bool
	AtomicYields     uint64
	unlInit, unlOn   bool
	UnlockYields     uint64
	// thread-stall fault (off unless StallBudget > 0): at a pre-emption point, with probability
	// 1/StallDen, the task sleeps 1..StallMaxMs simulated milliseconds
	StallBudget int
	StallDen    uint32
	StallMaxMs  uint32
	StallSite   func(site string) bool // optional filter on the task's spawn site
	Stalls      int
	StallTime   time.Duration // total simulated time tasks spent stalled
	Start        time.Time

	hash    uint64
	Seq     uint64
	ring    []string
	ringPos int
	RingCap int
	Trace   bool

	Panics []string

	stopLoop bool
	// OnIdle, if set, is invoked (holding no baton, no task running) whenever the run queue has
	// drained, before the clock is allowed to advance. It must not block.
	OnIdle func()
}

// New creates a scheduler and installs it. Must be called inside a synctest bubble.
func New(tape *Tape) *Sched {
	s := &Sched{
		Tape:       tape,
		released:   make(chan struct{}),
		wake:       make(chan struct{}, 1),
		kill:       make(chan struct{}),
		mconds:     make(map[interface{}]*Cond),
		PreemptDen: 4,
		MaxSteps:   5_000_000,
		RingCap:    400,
		Start:      time.Now(),
		hash:       14695981039346656037,
	}
	s.lastNow = s.Start
	S = s
	return s
}

// Now returns the simulated time elapsed since the scheduler was created.
func (s *Sched) Now() time.Duration { return time.Since(s.Start) }

// Event folds an observable event into the run hash and the trace ring.
func (s *Sched) Event(kind string, payload string) {
	s.Seq++
	tid := -1
	if s.cur != nil {
		tid = s.cur.ID
	}
	h := fnv.New64a()
	var b [8]byte
	put := func(v uint64) {
		for i := 0; i < 8; i++ {
			b[i] = byte(v >> (8 * i))
		}
		h.Write(b[:])
	}
	put(s.hash)
	put(s.Seq)
	put(uint64(s.Now()))
	put(uint64(int64(tid)))
	h.Write([]byte(kind))
	h.Write([]byte{0})
	h.Write([]byte(payload))
	s.hash = h.Sum64()
	if s.RingCap > 0 {
		line := fmt.Sprintf("#%d t=%v task=%d %s %s", s.Seq, s.Now(), tid, kind, payload)
		if len(s.ring) < s.RingCap {
			s.ring = append(s.ring, line)
		} else {
			s.ring[s.ringPos] = line
			s.ringPos = (s.ringPos + 1) % s.RingCap
		}
		if s.Trace {
			fmt.Println(line)
		}
	}
}

// Eventf is Event with formatting (only formats when it will be used).
func Eventf(kind string, format string, args ...interface{}) {
	if S == nil {
		return
	}
	S.Event(kind, fmt.Sprintf(format, args...))
}

func (s *Sched) Hash() uint64 { return s.hash }

// TraceLines returns the last events, oldest first.
func (s *Sched) TraceLines() []string {
	out := make([]string, 0, len(s.ring))
	out = append(out, s.ring[s.ringPos:]...)
	out = append(out, s.ring[:s.ringPos]...)
	return out
}

func (s *Sched) foldInt(v uint64) {
	s.hash = (s.hash ^ v) * 1099511628211
}

// Go starts f as a new task. With no scheduler installed it is a plain go statement.
func Go(site string, f func()) {
	s := S
	if s == nil {
		go f()
		return
	}
	s.spawn(site, f, false)
	Yield()
}

// GoDaemon starts a harness task that does not count as "live" for end-of-run detection.
func GoDaemon(site string, f func()) {
	s := S
	if s == nil {
		go f()
		return
	}
	s.spawn(site, f, true)
}

func (s *Sched) spawn(site string, f func(), daemon bool) *Task {
	s.mu.Lock()
	t := &Task{ID: len(s.tasks), Site: site, grant: make(chan struct{}, 1), Daemon: daemon}
	s.tasks = append(s.tasks, t)
	s.runnable = append(s.runnable, t)
	s.live++
	s.mu.Unlock()
	go func() {
		<-t.grant
		if s.killed {
			s.finish(t, false)
			return
		}
		defer func() {
			if r := recover(); r != nil {
				msg := fmt.Sprintf("panic in task %d (%s): %v\n%s", t.ID, t.Site, r, debug.Stack())
				s.mu.Lock()
				s.Panics = append(s.Panics, msg)
				s.mu.Unlock()
				if !s.killed {
					s.Event("panic", fmt.Sprintf("task=%d site=%s %v", t.ID, t.Site, r))
				}
			}
			s.finish(t, true)
		}()
		f()
	}()
	return t
}

func (s *Sched) finish(t *Task, holds bool) {
	s.mu.Lock()
	wasRunning := t.state == stRunning
	t.state = stDone
	s.live--
	s.mu.Unlock()
	if wasRunning && !s.killed {
		s.cur = nil
		s.released <- struct{}{}
	}
}

// release gives the baton back to the scheduler. The caller must then perform a durably
// blocking operation (or park) and call acquire.
func (s *Sched) release(t *Task, st int) {
	s.mu.Lock()
	t.state = st
	s.mu.Unlock()
	s.cur = nil
	s.released <- struct{}{}
}

// acquire parks until the scheduler grants the baton.
func (s *Sched) acquire(t *Task) {
	s.mu.Lock()
	t.state = stRunnable
	s.runnable = append(s.runnable, t)
	s.mu.Unlock()
	select {
	case s.wake <- struct{}{}:
	default:
	}
	<-t.grant
	if s.killed {
		runtime.Goexit()
	}
}

// Yield is an unconditional-coin pre-emption point.
func Yield() {
	s := S
	if s == nil {
		return
	}
	t := s.cur
	if t == nil || s.killed {
		return
	}
	if t.noPre > 0 || s.PreemptDen < 2 {
		return
	}
	if s.Tape.Choose(s.PreemptDen) != 1 {
		return
	}
	s.preempt(t)
}

// preempt takes the processor from the running task at a pre-emption point whose coin came up:
// for a moment (other runnable tasks get their turn) or, with the thread-stall fault, for a while
// of simulated time.
func (s *Sched) preempt(t *Task) {
	s.Preemptions++
	if s.StallBudget > 0 && s.StallDen > 0 && (s.StallSite == nil || s.StallSite(t.Site)) && s.Tape.Choose(s.StallDen) == 0 {
		// fault: a stalled thread. The task loses the processor for a while of simulated time at
		// this pre-emption point (a slow or descheduled thread), everything else carries on.
		s.StallBudget--
		s.Stalls++
		d := time.Duration(1+s.Tape.Choose(s.StallMaxMs)) * time.Millisecond
		s.StallTime += d
		s.Event("stall", t.Site)
		Sleep(d)
		return
	}
	s.release(t, stInOp)
	s.acquire(t)
}

// ForceYield always gives other runnable tasks a chance (used by harness loops).
func ForceYield() {
	s := S
	if s == nil {
		runtime.Gosched()
		return
	}
	t := s.cur
	if t == nil || s.killed {
		return
	}
	s.release(t, stInOp)
	s.acquire(t)
}

// NoPreempt runs f on the current task without drawing pre-emption coins, so that adding or
// removing oracle queries never shifts the schedule of the system under test.
func NoPreempt(f func()) {
	s := S
	if s == nil || s.cur == nil {
		f()
		return
	}
	t := s.cur
	t.noPre++
	defer func() { t.noPre-- }()
	f()
}

// Block runs a real, durably blocking operation with the baton released.
func Block(f func()) {
	s := S
	if s == nil || s.cur == nil || s.killed {
		f()
		return
	}
	t := s.cur
	s.release(t, stInOp)
	f()
	s.acquire(t)
}

// Sleep is time.Sleep on the bubble's fake clock.
func Sleep(d time.Duration) {
	s := S
	if s == nil || s.cur == nil {
		time.Sleep(d)
		return
	}
	if s.killed {
		runtime.Goexit()
	}
	t := s.cur
	s.release(t, stInOp)
	if d > 0 {
		tm := time.NewTimer(d)
		select {
		case <-tm.C:
		case <-s.kill:
			tm.Stop()
			runtime.Goexit()
		}
	}
	s.acquire(t)
}

// Run is the scheduler loop. It returns when stop() reports true at an idle point, when no live
// non-daemon task remains, or when a cap is hit. It must be called from the bubble's root
// goroutine.
func (s *Sched) Run(until func() bool) {
	for {
		synctest.Wait()
		s.mu.Lock()
		n := len(s.runnable)
		s.mu.Unlock()
		if n == 0 {
			if s.OnIdle != nil {
				s.OnIdle()
				s.mu.Lock()
				n = len(s.runnable)
				s.mu.Unlock()
				if n > 0 {
					continue
				}
			}
			if until != nil && until() {
				return
			}
			s.mu.Lock()
			liveNonDaemon := 0
			for _, t := range s.tasks {
				if t.state != stDone && !t.Daemon {
					liveNonDaemon++
				}
			}
			s.mu.Unlock()
			if liveNonDaemon == 0 {
				return
			}
			// Let the fake clock advance: block durably until some task wants the baton.
			tm := time.NewTimer(24 * time.Hour)
			select {
			case <-s.wake:
				tm.Stop()
			case <-tm.C:
				// nothing happened for a simulated day: every task is blocked for good
				s.Stalled = true
				return
			}
			continue
		}
		// drain a stale wake token
		select {
		case <-s.wake:
		default:
		}
		now := time.Now()
		if now.After(s.lastNow) {
			s.lastNow = now
			s.stepsNoClock = 0
		} else {
			s.stepsNoClock++
			if s.stepsNoClock > 200_000 {
				s.Zeno = true
				return
			}
		}
		s.Steps++
		if s.Steps > s.MaxSteps {
			s.StepCap = true
			return
		}
		s.mu.Lock()
		sort.Slice(s.runnable, func(i, j int) bool {
			a, b := s.runnable[i], s.runnable[j]
			if a == s.last {
				return b != s.last
			}
			if b == s.last {
				return false
			}
			return a.ID < b.ID
		})
		idx := 0
		if len(s.runnable) > 1 {
			idx = int(s.Tape.Choose(uint32(len(s.runnable))))
		}
		t := s.runnable[idx]
		s.runnable = append(s.runnable[:idx], s.runnable[idx+1:]...)
		t.state = stRunning
		s.mu.Unlock()
		s.foldInt(uint64(t.ID)<<8 | uint64(idx))
		s.cur = t
		s.last = t
		t.grant <- struct{}{}
		tm := time.NewTimer(48 * time.Hour)
		select {
		case <-s.released:
			tm.Stop()
		case <-tm.C:
			s.Stalled = true
			return
		}
	}
}

// Kill ends the run: every parked or blocked task exits.
func (s *Sched) Kill() {
	s.mu.Lock()
	s.killed = true
	close(s.kill)
	for _, t := range s.tasks {
		if t.state != stDone {
			select {
			case t.grant <- struct{}{}:
			default:
			}
		}
	}
	s.mu.Unlock()
}

// LiveTasks lists tasks that have not finished (for hang reports).
func (s *Sched) LiveTasks(includeDaemon bool) []string {
	s.mu.Lock()
	defer s.mu.Unlock()
	var out []string
	for _, t := range s.tasks {
		if t.state != stDone && (includeDaemon || !t.Daemon) {
			out = append(out, fmt.Sprintf("task %d %s state=%d", t.ID, t.Site, t.state))
		}
	}
	return out
}

// CurrentID returns the id of the running task (-1 if none).
func CurrentID() int {
	if S == nil || S.cur == nil {
		return -1
	}
	return S.cur.ID
}

// CurrentSite returns the spawn site label of the running task.
func CurrentSite() string {
	if S == nil || S.cur == nil {
		return ""
	}
	return S.cur.Site
}
