module verif.local/simrt

go 1.18
